#!/bin/sh
# usage: run.sh <repo-root>   (honours CARGO_TARGET_DIR)
# a.oal: `<status=200, { 'x str }> :: <status=200, { 'y int }>` (two different alternatives for one status and media type)
# b.oal: the SAME alternative given twice (control: nothing is lost, must stay accepted)
# exit 0: a.oal is rejected with a located error (or both schemas are in the document) and b.oal compiles; exit 1: a.oal compiles and a declared schema is missing; exit 2: could not run
ROOT=${1:?usage: run.sh <repo-root>}
HERE=$(cd "$(dirname "$0")" && pwd)
OUT=$(mktemp -d); trap 'rm -rf "$OUT"' EXIT
export CARGO_NET_OFFLINE=true
(cd "$ROOT" && cargo build --offline -q -p oal-client --bin oal-cli) >/dev/null 2>&1 || { echo "could not build oal-cli" >&2; exit 2; }
fail=0
if (cd "$ROOT" && cargo run --offline -q -p oal-client --bin oal-cli -- -m "$HERE/a.oal" -t "$OUT/a.yaml") >"$OUT/a.log" 2>&1; then
    if grep -q " x:" "$OUT/a.yaml" && grep -q " y:" "$OUT/a.yaml"; then echo "a.oal: compiled, both alternatives present"; else echo "FAIL: a.oal compiled, but a declared alternative is missing:"; grep -n " x:\| y:" "$OUT/a.yaml"; fail=1; fi
else
    echo "a.oal: rejected: $(sed 's/\x1b\[[0-9;]*m//g' "$OUT/a.log" | grep '^Error' | head -1)"
fi
if (cd "$ROOT" && cargo run --offline -q -p oal-client --bin oal-cli -- -m "$HERE/b.oal" -t "$OUT/b.yaml") >"$OUT/b.log" 2>&1; then echo "b.oal: compiled (control)"; else echo "FAIL: the control b.oal must compile"; fail=1; fi
exit $fail
