#!/usr/bin/env python3
"""Drives the real oal-lsp binary over stdio: prepareRename + rename at the given 0-based (line, character) of main.oal.
usage: lsp_rename.py <oal-lsp binary> <workspace dir> <line> <character> <new name>
prints the JSON result of both requests; exit 0 = both answered, 1 = the server died / answered with an error"""
import json, os, subprocess, sys, time
binp, ws, line, ch, new = sys.argv[1], os.path.abspath(sys.argv[2]), int(sys.argv[3]), int(sys.argv[4]), sys.argv[5]
p = subprocess.Popen([binp], stdin=subprocess.PIPE, stdout=subprocess.PIPE, stderr=subprocess.PIPE)
def send(o):
    b = json.dumps(o).encode()
    p.stdin.write(b'Content-Length: %d\r\n\r\n' % len(b) + b); p.stdin.flush()
def recv():
    hdr = b''
    while not hdr.endswith(b'\r\n\r\n'):
        c = p.stdout.read(1)
        if not c: return None
        hdr += c
    n = int([l for l in hdr.split(b'\r\n') if l.lower().startswith(b'content-length')][0].split(b':')[1])
    return json.loads(p.stdout.read(n))
def request(i, method, params):
    send({'jsonrpc': '2.0', 'id': i, 'method': method, 'params': params})
    while True:
        m = recv()
        if m is None: return None
        if m.get('id') == i and 'method' not in m: return m
uri = 'file://' + ws
doc = {'uri': uri + '/main.oal'}
r = request(1, 'initialize', {'processId': None, 'rootUri': uri, 'capabilities': {'general': {'positionEncodings': ['utf-16']}},
                              'workspaceFolders': [{'uri': uri, 'name': 'ws'}]})
assert r is not None, 'no initialize response'
send({'jsonrpc': '2.0', 'method': 'initialized', 'params': {}})
pos = {'line': line, 'character': ch}
ok = True
for i, (method, params) in enumerate([('textDocument/prepareRename', {'textDocument': doc, 'position': pos}),
                                      ('textDocument/rename', {'textDocument': doc, 'position': pos, 'newName': new})], start=2):
    r = request(i, method, params)
    if r is None:
        time.sleep(0.3)
        err = p.stderr.read().decode(errors='replace') if p.poll() is not None else ''
        print('%s: SERVER TERMINATED (exit status %s)' % (method, p.poll()))
        print('\n'.join('  stderr: ' + l for l in err.splitlines() if 'panicked' in l or 'unwrap' in l or 'handlers.rs' in l))
        ok = False
        break
    print('%s: %s' % (method, json.dumps(r.get('result', r.get('error')), sort_keys=True)))
    if 'error' in r: ok = False
if p.poll() is None:
    request(9, 'shutdown', None); send({'jsonrpc': '2.0', 'method': 'exit'})
    try: p.wait(timeout=5)
    except Exception: p.kill()
sys.exit(0 if ok else 1)
