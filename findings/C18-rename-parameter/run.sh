#!/bin/sh
# usage: run.sh <repo-root>     (honours CARGO_TARGET_DIR)
# Drives the real oal-lsp binary: prepareRename + rename with the cursor on a use of a function parameter and of a recursion variable.
# exit 0: both requests are answered with the edits of the binder and its uses; exit 1: the server terminated; exit 2: could not build
ROOT=${1:?usage: run.sh <repo-root>}
HERE=$(cd "$(dirname "$0")" && pwd)
export CARGO_NET_OFFLINE=true
(cd "$ROOT" && cargo build --offline -q -p oal-client --bin oal-lsp) >/dev/null 2>&1 || { echo "could not build oal-lsp" >&2; exit 2; }
BIN=${CARGO_TARGET_DIR:-$ROOT/target}/debug/oal-lsp
fail=0
echo "== cursor on a use of parameter x  (main.oal 0:20)"; python3 "$HERE/lsp_rename.py" "$BIN" "$HERE/ws" 0 20 y || fail=1
echo "== cursor on a use of recursion variable t  (main.oal 1:42)"; python3 "$HERE/lsp_rename.py" "$BIN" "$HERE/ws" 1 42 u || fail=1
exit $fail
