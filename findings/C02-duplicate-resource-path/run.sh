#!/bin/sh
# usage: run.sh <repo-root>   (honours CARGO_TARGET_DIR)
# main.oal declares `res /a on get -> ..;` and `res /a on put .. -> ..;`.
# exit 0: both operations are in the document, or the program is rejected with a located error; exit 1: the document silently lacks the first resource's operation; exit 2: could not run
ROOT=${1:?usage: run.sh <repo-root>}
HERE=$(cd "$(dirname "$0")" && pwd)
OUT=$(mktemp -d); trap 'rm -rf "$OUT"' EXIT
export CARGO_NET_OFFLINE=true
(cd "$ROOT" && cargo build --offline -q -p oal-client --bin oal-cli) >/dev/null 2>&1 || { echo "could not build oal-cli" >&2; exit 2; }
if (cd "$ROOT" && cargo run --offline -q -p oal-client --bin oal-cli -- -m "$HERE/main.oal" -t "$OUT/o.yaml") >"$OUT/log" 2>&1; then
    ops=$(grep -c "operationId:" "$OUT/o.yaml")
    echo "compiled: $ops operation(s): $(grep 'operationId:' "$OUT/o.yaml" | tr -s ' ' | tr '\n' ';')"
    [ "$ops" -eq 2 ] || { echo "FAIL: two operations were declared (get /a, put /a)"; exit 1; }
else
    echo "rejected: $(sed 's/\x1b\[[0-9;]*m//g' "$OUT/log" | grep '^Error' | head -1)"
fi
exit 0
