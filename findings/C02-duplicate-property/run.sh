#!/bin/sh
# usage: run.sh <repo-root>   (honours CARGO_TARGET_DIR)
# obj.oal / query.oal / hdr.oal each declare one property name twice in an object literal (a schema, the query parameters, the response headers).
# exit 0: each is rejected with a located error (or both declarations are in the document); exit 1: a declaration is silently missing or two parameters share a name; exit 2: could not run
ROOT=${1:?usage: run.sh <repo-root>}
HERE=$(cd "$(dirname "$0")" && pwd)
OUT=$(mktemp -d); trap 'rm -rf "$OUT"' EXIT
export CARGO_NET_OFFLINE=true
(cd "$ROOT" && cargo build --offline -q -p oal-client --bin oal-cli) >/dev/null 2>&1 || { echo "could not build oal-cli" >&2; exit 2; }
fail=0
for f in obj query hdr; do
    if (cd "$ROOT" && cargo run --offline -q -p oal-client --bin oal-cli -- -m "$HERE/$f.oal" -t "$OUT/$f.yaml") >"$OUT/$f.log" 2>&1; then
        echo "$f.oal: compiled:"; sed -n '/^paths/,$p' "$OUT/$f.yaml" | grep -n "type: string\|type: integer\|name:" | sed 's/^/    /'
        n=$(sed -n '/^paths/,$p' "$OUT/$f.yaml" | grep -c "type: string\|type: integer")
        names=$(grep "name:" "$OUT/$f.yaml" | sort | uniq -d)
        if [ "$n" -lt 2 ] || [ -n "$names" ]; then echo "FAIL: $f.oal: a declared property is missing from the document, or two parameters share a name"; fail=1; fi
    else
        echo "$f.oal: rejected: $(sed 's/\x1b\[[0-9;]*m//g' "$OUT/$f.log" | grep '^Error' | head -1)"
    fi
done
exit $fail
