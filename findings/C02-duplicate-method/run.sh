#!/bin/sh
# usage: run.sh <repo-root>   (honours CARGO_TARGET_DIR)
# a.oal: `res /a on get -> <200..>, get -> <404..>;`   b.oal: `res /a on get, put -> <200..>, put : .. -> <204..>;`
# exit 0: each program is rejected with a located error, or every declared response is in the document; exit 1: a declared operation/response is silently missing; exit 2: could not run
ROOT=${1:?usage: run.sh <repo-root>}
HERE=$(cd "$(dirname "$0")" && pwd)
OUT=$(mktemp -d); trap 'rm -rf "$OUT"' EXIT
export CARGO_NET_OFFLINE=true
(cd "$ROOT" && cargo build --offline -q -p oal-client --bin oal-cli) >/dev/null 2>&1 || { echo "could not build oal-cli" >&2; exit 2; }
fail=0
check() { # file, strings that must all occur in the document
    f=$1; shift
    if (cd "$ROOT" && cargo run --offline -q -p oal-client --bin oal-cli -- -m "$HERE/$f.oal" -t "$OUT/$f.yaml") >"$OUT/$f.log" 2>&1; then
        for want in "$@"; do
            grep -q "$want" "$OUT/$f.yaml" || { echo "FAIL: $f.oal compiled, but the declared $want is missing from the document"; fail=1; }
        done
        [ $fail -eq 0 ] && echo "$f.oal: compiled, every declared response present"
    else
        echo "$f.oal: rejected: $(sed 's/\x1b\[[0-9;]*m//g' "$OUT/$f.log" | grep '^Error' | head -1)"
    fi
}
check a "'200'" "'404'"
check b "'200'" "'204'" "x:"
# in b.oal the first transfer declares `put` with the 200 response { 'x str }: the put operation must carry it (or the program be rejected)
exit $fail
