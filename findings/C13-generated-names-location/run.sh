#!/bin/sh
# usage: run.sh <repo-root>     (honours CARGO_TARGET_DIR)
# For every demo source: run the CLI and the playground entry point (oal_wasm::compile).
# exit 0: for every source both fail or both emit the same document; exit 1: they disagree; exit 2: could not run
ROOT=${1:?usage: run.sh <repo-root>}
HERE=$(cd "$(dirname "$0")" && pwd)
TMP=$(mktemp -d)
TEST="$ROOT/oal-wasm/tests/c13_demo.rs"
CREATED_DIR=0
cleanup() { rm -f "$TEST"; [ $CREATED_DIR -eq 1 ] && rmdir "$ROOT/oal-wasm/tests" 2>/dev/null; rm -rf "$TMP"; }
trap cleanup EXIT
export CARGO_NET_OFFLINE=true
if ! (cd "$ROOT" && cargo build --offline -q -p oal-client --bin oal-cli) >"$TMP/build.log" 2>&1; then
    cat "$TMP/build.log" >&2; echo "could not build oal-cli" >&2; exit 2
fi

# playground side
[ -d "$ROOT/oal-wasm/tests" ] || { mkdir "$ROOT/oal-wasm/tests"; CREATED_DIR=1; }
cp "$HERE/c13_demo.rs" "$TEST"
SRCS=""; for f in "$HERE"/src/*.oal; do SRCS="$SRCS:$f"; done
if ! (cd "$ROOT" && C13_SRCS="$SRCS" C13_OUT="$TMP" timeout 600 \
        cargo test --offline -q -p oal-wasm --test c13_demo) >"$TMP/test.log" 2>&1; then
    cat "$TMP/test.log" >&2; echo "could not run the playground harness" >&2; exit 2
fi

fail=0
for f in "$HERE"/src/*.oal; do
    stem=$(basename "$f" .oal)
    # CLI side
    if (cd "$ROOT" && timeout 20 cargo run --offline -q -p oal-client --bin oal-cli -- \
            -m "$f" -t "$TMP/$stem.cli.yaml") >"$TMP/$stem.cli.log" 2>&1 && [ -s "$TMP/$stem.cli.yaml" ]; then
        cli=ok
    else
        cli=error
    fi
    wasm=$(cat "$TMP/$stem.wasm.status")
    echo "$stem.oal: cli=$cli playground=$wasm"
    if [ "$cli" != "$wasm" ]; then
        echo "FAIL: $stem.oal: one front end fails, the other emits a document"
        [ "$cli" = error ] && sed 's/\x1b\[[0-9;]*m//g' "$TMP/$stem.cli.log" | grep -E "^Error|ERROR" | sed 's/^/  cli: /'
        [ "$wasm" = ok ] && { echo "  playground document:"; sed -n '/^paths:/,$p' "$TMP/$stem.wasm.yaml" | sed 's/^/    /'; }
        fail=1
    elif [ "$cli" = ok ] && ! diff -u "$TMP/$stem.cli.yaml" "$TMP/$stem.wasm.yaml" >"$TMP/$stem.diff"; then
        echo "FAIL: $stem.oal: the two front ends emit different documents"; cat "$TMP/$stem.diff"
        fail=1
    fi
done
[ $fail -eq 0 ] && echo OK
exit $fail
