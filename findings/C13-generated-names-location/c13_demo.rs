//! Demo harness (copied to oal-wasm/tests/ by run.sh, removed afterwards).
//! Runs the playground entry point on every source listed in C13_SRCS (':'-separated paths) and
//! writes `<C13_OUT>/<stem>.wasm.status` ("ok" / "error") and `<stem>.wasm.yaml` / `<stem>.wasm.err`.
use std::{env, fs, path::Path};

#[test]
fn playground_outputs() {
    let srcs = env::var("C13_SRCS").expect("C13_SRCS not set");
    let out = env::var("C13_OUT").expect("C13_OUT not set");
    for src in srcs.split(':').filter(|s| !s.is_empty()) {
        let stem = Path::new(src).file_stem().unwrap().to_str().unwrap();
        let input = fs::read_to_string(src).expect("cannot read source");
        let res = oal_wasm::compile(&input);
        let ok = res.error.is_empty();
        fs::write(format!("{out}/{stem}.wasm.status"), if ok { "ok" } else { "error" }).unwrap();
        fs::write(format!("{out}/{stem}.wasm.yaml"), &res.api).unwrap();
        fs::write(format!("{out}/{stem}.wasm.err"), &res.error).unwrap();
    }
}
