#!/bin/sh
# usage: run.sh <repo-root>   (honours CARGO_TARGET_DIR)
# Compiles each program with the real oal-cli. main / bare / concat give a resource whose path template names the variable `id` twice; ok.oal is a control.
# exit 0: the three are rejected with a located error and the control compiles; exit 1: one of them emits a path key with a repeated {variable}; exit 2: could not run
ROOT=${1:?usage: run.sh <repo-root>}
HERE=$(cd "$(dirname "$0")" && pwd)
OUT=$(mktemp -d); trap 'rm -rf "$OUT"' EXIT
export CARGO_NET_OFFLINE=true
(cd "$ROOT" && cargo build --offline -q -p oal-client --bin oal-cli) >/dev/null 2>&1 || { echo "could not build oal-cli" >&2; exit 2; }
fail=0
for f in main bare concat ok; do
    if (cd "$ROOT" && cargo run --offline -q -p oal-client --bin oal-cli -- -m "$HERE/$f.oal" -t "$OUT/$f.yaml") >"$OUT/$f.log" 2>&1; then
        keys=$(grep "^  /" "$OUT/$f.yaml" | tr -d ' :')
        echo "$f.oal: compiled, path keys: $keys"
        [ "$f" = ok ] || { echo "FAIL: $f.oal: a path key repeats a {variable}:"; sed -n '/parameters:/,$p' "$OUT/$f.yaml" | grep "name:\|in:" ; fail=1; }
    else
        echo "$f.oal: rejected: $(sed 's/\x1b\[[0-9;]*m//g' "$OUT/$f.log" | grep '^Error' | head -1)"
        [ "$f" = ok ] && { echo "FAIL: the control must compile"; fail=1; }
    fi
done
exit $fail
