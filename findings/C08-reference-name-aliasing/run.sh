#!/bin/sh
# usage: run.sh <repo-root>   (honours CARGO_TARGET_DIR)
# lib.oal declares `let @item = { 'a str };` and uses it (`let libitem = @item;`); main.oal declares its own `let @item = { 'b int };`
# and answers /mine with its @item and /theirs with lib.libitem.
# exit 0: /theirs answers with lib's schema (property `a`); exit 1: /theirs answers with main's schema (the two declarations were aliased); exit 2: could not run
ROOT=${1:?usage: run.sh <repo-root>}
HERE=$(cd "$(dirname "$0")" && pwd)
OUT=$(mktemp -d); trap 'rm -rf "$OUT"' EXIT
export CARGO_NET_OFFLINE=true
(cd "$ROOT" && cargo run --offline -q -p oal-client --bin oal-cli -- -m "$HERE/main.oal" -t "$OUT/openapi.yaml") >"$OUT/log" 2>&1 || { cat "$OUT/log" >&2; exit 2; }
python3 - "$OUT/openapi.yaml" <<'PY'
import sys, re
t = open(sys.argv[1]).read()
# tiny reader: the $ref under each path, and the property names of each component
refs = dict(re.findall(r"(?m)^  (/\w+):\n(?:.*\n)*?\s+\$ref: '#/components/schemas/([^']+)'", t))
comps = {}
m = re.search(r"(?ms)^components:\n  schemas:\n(.*)", t)
cur = None
for line in (m.group(1) if m else '').split('\n'):
    m2 = re.match(r"^    (\S+):$", line)
    if m2: cur = m2.group(1); comps[cur] = []
    m3 = re.match(r"^        (\w+):$", line)
    if m3 and cur: comps[cur].append(m3.group(1))
print('refs:', refs); print('components:', comps)
theirs = comps.get(refs.get('/theirs'), [])
mine = comps.get(refs.get('/mine'), [])
ok = ('a' in theirs) and ('b' in mine)
print('OK' if ok else "FAIL: /theirs must answer with lib's @item ({ 'a str }) and /mine with main's ({ 'b int }); got theirs=%s mine=%s" % (theirs, mine))
sys.exit(0 if ok else 1)
PY
