#!/bin/sh
# usage: run.sh <repo-root>   (honours CARGO_TARGET_DIR)
# Compiles main.oal with the real oal-cli and lists the operationIds of the emitted document.
# exit 0: all operationIds are distinct; exit 1: two operations share an operationId; exit 2: could not run
ROOT=${1:?usage: run.sh <repo-root>}
HERE=$(cd "$(dirname "$0")" && pwd)
OUT=$(mktemp -d); trap 'rm -rf "$OUT"' EXIT
export CARGO_NET_OFFLINE=true
(cd "$ROOT" && cargo run --offline -q -p oal-client --bin oal-cli -- -m "$HERE/main.oal" -t "$OUT/openapi.yaml") >"$OUT/log" 2>&1 || { cat "$OUT/log" >&2; exit 2; }
grep -n "^  /\|operationId" "$OUT/openapi.yaml"
dup=$(grep "operationId:" "$OUT/openapi.yaml" | sed 's/.*operationId: *//' | sort | uniq -d)
if [ -n "$dup" ]; then echo "FAIL: operationId used by more than one operation: $dup"; exit 1; fi
echo OK
