"""Derives, mechanically from the #[regex]/#[token] attributes of the real TokenKind enum, the lexical
shape facts the LOGOS contract hands to the verifier: for each kind the minimal / maximal length of a
match and the sets of characters that can come first, last, and anywhere.

The LOGOS contract (trusted) is only: "an Ok(kind) item's slice matches kind's pattern".  Everything
the proofs use about a pattern is computed here from the pattern text of the working tree, so a changed
pattern changes the generated `shape` and the call-site obligations are re-decided against it.
"""
import re
import sys
import os

sys.path.insert(0, os.path.dirname(os.path.abspath(__file__)))
import rustscan as rs  # noqa: E402


class Unsupported(Exception):
    pass


# ---- character sets: (neg, frozenset(chars)) ------------------------------------------------------
def cs(chars):
    return (False, frozenset(chars))


EMPTY = cs('')


def cs_union(a, b):
    (na, sa), (nb, sb) = a, b
    if not na and not nb:
        return (False, sa | sb)
    if na and nb:
        return (True, sa & sb)
    if na:
        return (True, sa - sb)
    return (True, sb - sa)


class Info:
    def __init__(self, nullable, mn, mx, first, last, allc):
        self.nullable, self.mn, self.mx, self.first, self.last, self.all = nullable, mn, mx, first, last, allc


def lit(c):
    s = cs(c)
    return Info(False, 1, 1, s, s, s)


def klass(s):
    return Info(False, 1, 1, s, s, s)


EPS = Info(True, 0, 0, EMPTY, EMPTY, EMPTY)


def cat(a, b):
    mx = None if a.mx is None or b.mx is None else a.mx + b.mx
    first = cs_union(a.first, b.first) if a.nullable else a.first
    last = cs_union(a.last, b.last) if b.nullable else b.last
    if a.nullable and a.mx == 0:
        first = b.first
    if b.nullable and b.mx == 0:
        last = a.last
    return Info(a.nullable and b.nullable, a.mn + b.mn, mx, first, last, cs_union(a.all, b.all))


def alt(a, b):
    mx = None if a.mx is None or b.mx is None else max(a.mx, b.mx)
    return Info(a.nullable or b.nullable, min(a.mn, b.mn), mx, cs_union(a.first, b.first), cs_union(a.last, b.last), cs_union(a.all, b.all))


def star(a):
    return Info(True, 0, None, a.first, a.last, a.all)


def plus(a):
    return Info(a.nullable, a.mn, None, a.first, a.last, a.all)


def opt(a):
    return Info(True, 0, a.mx, a.first, a.last, a.all)


ESC = {'n': '\n', 'r': '\r', 't': '\t', '0': '\0'}


class RegexParser:
    def __init__(self, text, subs):
        self.t, self.i, self.subs = text, 0, subs

    def peek(self):
        return self.t[self.i] if self.i < len(self.t) else None

    def parse(self):
        r = self.alternation()
        if self.i != len(self.t):
            raise Unsupported('trailing regex text: %r' % self.t[self.i:])
        return r

    def alternation(self):
        r = self.concat()
        while self.peek() == '|':
            self.i += 1
            r = alt(r, self.concat())
        return r

    def concat(self):
        r = EPS
        while self.peek() is not None and self.peek() not in '|)':
            r = cat(r, self.repeat())
        return r

    def repeat(self):
        a = self.atom()
        while self.peek() in ('*', '+', '?'):
            c = self.peek()
            self.i += 1
            a = star(a) if c == '*' else plus(a) if c == '+' else opt(a)
        if self.peek() == '{':
            raise Unsupported('counted repetition')
        return a

    def escape(self):
        self.i += 1
        c = self.peek()
        if c is None:
            raise Unsupported('dangling backslash')
        self.i += 1
        if c in ESC:
            return ESC[c]
        if c.isalnum():
            raise Unsupported('escape class \\%s' % c)
        return c

    def atom(self):
        c = self.peek()
        if c == '(':
            if self.t.startswith('(?&', self.i):
                j = self.t.index(')', self.i)
                name = self.t[self.i + 3:j]
                self.i = j + 1
                if name not in self.subs:
                    raise Unsupported('unknown subpattern %s' % name)
                return RegexParser(self.subs[name], self.subs).parse()
            if self.t.startswith('(?', self.i):
                raise Unsupported('group flags')
            self.i += 1
            r = self.alternation()
            if self.peek() != ')':
                raise Unsupported('unbalanced group')
            self.i += 1
            return r
        if c == '[':
            return klass(self.char_class())
        if c == '.':
            self.i += 1
            return klass((True, frozenset('\n')))
        if c == '\\':
            return lit(self.escape())
        if c in '^$':
            raise Unsupported('anchors')
        self.i += 1
        return lit(c)

    def char_class(self):
        assert self.peek() == '['
        self.i += 1
        neg = False
        if self.peek() == '^':
            neg = True
            self.i += 1
        chars = set()
        first = True
        while True:
            c = self.peek()
            if c is None:
                raise Unsupported('unterminated class')
            if c == ']' and not first:
                self.i += 1
                break
            first = False
            if c == '[':
                raise Unsupported('nested class')
            lo = self.escape() if c == '\\' else self._take()
            if self.peek() == '-' and self.i + 1 < len(self.t) and self.t[self.i + 1] != ']':
                self.i += 1
                c2 = self.peek()
                hi = self.escape() if c2 == '\\' else self._take()
                if ord(hi) < ord(lo) or ord(hi) - ord(lo) > 200:
                    raise Unsupported('class range')
                for o in range(ord(lo), ord(hi) + 1):
                    chars.add(chr(o))
            else:
                chars.add(lo)
        return (neg, frozenset(chars))

    def _take(self):
        c = self.t[self.i]
        self.i += 1
        return c


def rust_str(lit_text):
    """Decode a Rust string literal token (normal or raw)."""
    m = re.fullmatch(r'r(#*)"(.*)"\1', lit_text, re.S)
    if m:
        return m.group(2)
    m = re.fullmatch(r'"(.*)"', lit_text, re.S)
    if not m:
        raise Unsupported('not a string literal: %s' % lit_text)
    out = []
    s = m.group(1)
    i = 0
    while i < len(s):
        if s[i] == '\\':
            c = s[i + 1]
            if c in ESC:
                out.append(ESC[c])
            elif c in '"\'\\':
                out.append(c)
            else:
                raise Unsupported('rust escape \\%s' % c)
            i += 2
        else:
            out.append(s[i])
            i += 1
    return ''.join(out)


def variants(enum_text):
    """[(variant name, [attribute texts])] of an enum item text."""
    kind = rs.code_mask(enum_text)
    bo = enum_text.index('{')
    body_end = rs.match_close(enum_text, kind, bo)
    i = bo + 1
    out = []
    attrs = []
    while i < body_end:
        if kind[i] != 'c' or enum_text[i] in ' \t\r\n,':
            i += 1
            continue
        if enum_text[i] == '#' and enum_text[i + 1] == '[':
            close = rs.match_close(enum_text, kind, i + 1)
            attrs.append(enum_text[i + 2:close])
            i = close + 1
            continue
        m = rs.IDENT.match(enum_text, i)
        if not m:
            raise Unsupported('enum body syntax at %r' % enum_text[i:i + 20])
        name = m.group(0)
        i = m.end()
        # skip payload
        while i < body_end and enum_text[i] in ' \t\r\n':
            i += 1
        if i < body_end and enum_text[i] in '({':
            i = rs.match_close(enum_text, kind, i) + 1
        out.append((name, attrs))
        attrs = []
    return out


def char_lit(c):
    if c == '\n':
        return "'\\n'"
    if c == '\r':
        return "'\\r'"
    if c == '\t':
        return "'\\t'"
    if c == "'":
        return "'\\''"
    if c == '\\':
        return "'\\\\'"
    if c == '\0':
        return "'\\0'"
    return "'%s'" % c


def pred(cset, var):
    """Verus boolean expression: var (a char) is in cset."""
    neg, chars = cset
    cl = sorted(chars)
    if neg:
        if not cl:
            return 'true'
        return '(' + ' && '.join('%s != %s' % (var, char_lit(c)) for c in cl) + ')'
    if not cl:
        return 'false'
    # group into runs
    runs = []
    for c in cl:
        if runs and ord(c) == ord(runs[-1][1]) + 1:
            runs[-1][1] = c
        else:
            runs.append([c, c])
    parts = []
    for lo, hi in runs:
        parts.append('%s == %s' % (var, char_lit(lo)) if lo == hi else '(%s <= %s && %s <= %s)' % (char_lit(lo), var, var, char_lit(hi)))
    return '(' + ' || '.join(parts) + ')'


def analyse(enum_attrs, enum_text):
    subs = {}
    for a in enum_attrs:
        for m in re.finditer(r'subpattern\s+(\w+)\s*=\s*(r#*"[^"]*"#*|"(?:[^"\\]|\\.)*")', a):
            subs[m.group(1)] = rust_str(m.group(2))
    out = []
    for name, attrs in variants(enum_text):
        info = None
        src = None
        for a in attrs:
            m = re.match(r'\s*(regex|token)\s*\(\s*(r#*"(?:.|\n)*?"#*|"(?:[^"\\]|\\.)*")\s*(,.*)?\)\s*$', a, re.S)
            if not m:
                if re.match(r'\s*(regex|token)\b', a):
                    raise Unsupported('attribute form: %s' % a)
                continue
            text = rust_str(m.group(2))
            if m.group(1) == 'token':
                cur = EPS
                for ch in text:
                    cur = cat(cur, lit(ch))
            else:
                cur = RegexParser(text, subs).parse()
            info = cur if info is None else alt(info, cur)
            src = (m.group(1), m.group(2)) if src is None else src
        out.append((name, info, src))
    return out


def gen_shape(enum_attr_text, enum_text, type_name='TokenKind'):
    """Returns (verus source of `shape`, summary list)."""
    attrs = re.findall(r'#\[((?:[^\[\]]|\[[^\]]*\])*)\]', enum_attr_text)
    res = analyse(attrs, enum_text)
    helpers = []
    lines = ['// GENERATED on every run from the #[regex]/#[token] attributes of the real enum %s' % type_name,
             'pub open spec fn shape(k: %s, t: Seq<char>) -> bool {' % type_name, '    match k {']
    summary = []
    for name, info, src in res:
        if info is None:
            lines.append('        %s::%s => true, // no pattern: never produced by the lexer' % (type_name, name))
            continue
        conds = []
        if info.mx is not None and info.mx == info.mn:
            conds.append('t.len() == %d' % info.mn)
        else:
            conds.append('t.len() >= %d' % info.mn)
            if info.mx is not None:
                conds.append('t.len() <= %d' % info.mx)
        if info.mn >= 1:
            conds.append(pred(info.first, 't[0]'))
            conds.append(pred(info.last, 't.last()'))
        if src[0] == 'regex' and pred(info.all, 'c') != 'true':
            helpers.append('pub open spec fn chars_of_%s(c: char) -> bool { %s }' % (name, pred(info.all, 'c')))
            conds.append('(forall|i: int| 0 <= i < t.len() ==> chars_of_%s(#[trigger] t[i]))' % name)
        conds = [c for c in conds if c != 'true']
        lines.append('        %s::%s => %s, // %s(%s)' % (type_name, name, ' && '.join(conds) or 'true', src[0], src[1].replace('\n', ' ')))
        summary.append({'kind': name, 'pattern': '%s(%s)' % src, 'min': info.mn, 'max': info.mx})
    lines.append('    }')
    lines.append('}')
    return '\n'.join(helpers + lines) + '\n', summary


if __name__ == '__main__':
    src = open(sys.argv[1]).read()
    kind = rs.code_mask(src)
    it = rs.find_item(src, kind, [('enum', 'TokenKind')])
    text, summ = gen_shape(it.attrs(), it.text())
    print(text)
