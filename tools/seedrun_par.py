#!/usr/bin/env python3
"""Parallel version of tools/seedrun.py: the same regression (every seeded change against its property's check, every harmless edit
against every check that reads a touched file), spread over several scratch worktrees of /repo.

usage: seedrun_par.py <worktree> [<worktree> ...]          (each a clean `git worktree` of /repo at /repo's HEAD, outside /repo and /verif)
Worker 0 always uses /repo itself: the Kani harness crates include /repo's files by absolute path, so every patch that touches a file a
Kani harness reads (or anything under oal-syntax/ or oal-model/) is run there.  The other workers run ./check with VERIF_REPO pointing at
their worktree and private VERIF_GEN / VERIF_EVID / VERIF_REPLAY directories, so nothing under /verif/evidence or /verif/replay is touched
by them.  Writes /verif/seeded/RESULTS.md.  Do not run other checks while this runs (worker 0 patches /repo)."""
import glob, json, os, re, subprocess, sys, tempfile
ROOT = os.path.dirname(os.path.dirname(os.path.abspath(__file__)))
sys.path.insert(0, os.path.join(ROOT, 'tools'))


def load_seedrun():
    src = open(os.path.join(ROOT, 'tools', 'seedrun.py')).read()
    ns = {'__file__': os.path.join(ROOT, 'tools', 'seedrun.py')}
    exec(compile(src[:src.index('def run(prop):')], 'seedrun_head', 'exec'), ns)
    return ns


NS = load_seedrun()
PROPS, FILES = NS['PROPS'], NS['files_of_prop']()
KANI_FILES = set()
for lib in glob.glob(os.path.join(ROOT, 'kani', '*', 'src', '*.rs')):
    KANI_FILES.update(re.findall(r'"/repo/([^"]+)"', open(lib).read()))


def touched(patch):
    return set(re.findall(r'(?m)^\+\+\+ b/(\S+)', open(patch).read()))


def needs_repo(ts):
    return bool(ts & KANI_FILES) or any(t.startswith(('oal-syntax/', 'oal-model/')) for t in ts)


def worker(k, repo, items, outp):
    base = tempfile.mkdtemp(prefix='seedrun_w%d_' % k)
    env = dict(os.environ)
    if repo != '/repo':
        env.update(VERIF_NO_KANI='1', VERIF_REPO=repo, VERIF_GEN=os.path.join(base, 'gen'), VERIF_EVID=os.path.join(base, 'evid'), VERIF_REPLAY=os.path.join(base, 'replay'))
        for d in ('gen', 'evid', 'replay'):
            os.makedirs(os.path.join(base, d), exist_ok=True)

    def run(prop):
        r = subprocess.run(['./check', prop], cwd=ROOT, capture_output=True, text=True, env=env)
        lines = [l for l in r.stdout.split('\n') if l and not l.startswith('KNOWN-FINDING')]
        viol = [re.search(r'obligation=(\S+)', l).group(1) for l in lines if l.startswith('VIOLATION')]
        und = [l[11:150] for l in lines if l.startswith('UNDECIDED')]
        return r.returncode, viol, und

    def apply(p):
        subprocess.run(['git', '-C', repo, 'checkout', '--', '.'], check=True)
        return subprocess.run(['git', '-C', repo, 'apply', p]).returncode == 0

    res = []
    for it in items:
        if it['kind'] == 'seed':
            meta = it['meta']
            if not apply(it['patch']):
                res.append(dict(it, row='| %s | %s | - | patch does not apply |' % (it['name'], meta['property']))); continue
            props = [meta['property']] + (['C07'] if meta['property'] in ('C01', 'C04') else [])
            best = None
            for p in props:
                rc, viol, und = run(p)
                if best is None or rc == 1:
                    best = (p, rc, viol, und)
                if rc == 1:
                    break
            p, rc, viol, und = best
            verdict = ('VIOLATION ' + ', '.join(viol[:3])) if rc == 1 else ('UNDECIDED: ' + (und[0] if und else '')) if rc == 2 else 'missed (exit 0)'
            res.append(dict(it, rc=rc, row='| %s | %s (./check %s) | %d | %s |' % (it['name'], meta['property'], p, rc, verdict.replace('|', '\\|'))))
        else:
            if not apply(it['patch']):
                res.append(dict(it, row='| %s | patch does not apply |' % it['name'])); continue
            bad = []
            for p in it['relevant']:
                rc, viol, und = run(p)
                if rc != 0:
                    bad.append('%s:exit%d%s' % (p, rc, (' ' + ','.join(viol[:2])) if viol else ''))
            res.append(dict(it, bad=bad, row='| %s | %s (checks reading the touched file: %s) |' % (it['name'], ' '.join(bad) or 'none', ' '.join(it['relevant']) or '-')))
        print('[w%d] %s' % (k, res[-1]['row']), flush=True)
        json.dump(res, open(outp, 'w'))
    subprocess.run(['git', '-C', repo, 'checkout', '--', '.'], check=True)
    json.dump(res, open(outp, 'w'))


def main():
    if len(sys.argv) >= 2 and sys.argv[1] == '--worker':
        k, repo, itemsp, outp = int(sys.argv[2]), sys.argv[3], sys.argv[4], sys.argv[5]
        worker(k, repo, json.load(open(itemsp)), outp)
        return
    repos = ['/repo'] + sys.argv[1:]
    head = subprocess.run(['git', '-C', '/repo', 'rev-parse', 'HEAD'], capture_output=True, text=True).stdout.strip()
    for r in repos:
        h = subprocess.run(['git', '-C', r, 'rev-parse', 'HEAD'], capture_output=True, text=True).stdout.strip()
        st = subprocess.run(['git', '-C', r, 'status', '--porcelain', '--untracked-files=no'], capture_output=True, text=True).stdout.strip()
        if h != head or st:
            sys.exit('%s is not a clean worktree at /repo HEAD %s' % (r, head[:7]))
    items = []
    for d in sorted(glob.glob(os.path.join(ROOT, 'seeded', 's[0-9][0-9]-*'))):
        patch = os.path.join(d, 'patch.diff')
        items.append({'kind': 'seed', 'name': os.path.basename(d), 'patch': patch, 'meta': json.load(open(os.path.join(d, 'meta.json'))), 'touched': sorted(touched(patch)), 'cost': 1})
    for f in sorted(glob.glob(os.path.join(ROOT, 'seeded', 'harmless*', '*.diff'))):
        ts = touched(f)
        rel = [p for p in PROPS if FILES.get(p, set()) & ts]
        items.append({'kind': 'harmless', 'name': os.path.basename(f), 'patch': f, 'touched': sorted(ts), 'relevant': rel, 'cost': max(1, len(rel))})
    loads = [0] * len(repos)
    parts = [[] for _ in repos]
    for it in sorted(items, key=lambda i: -i['cost']):
        k = 0 if needs_repo(set(it['touched'])) else min(range(len(repos)), key=lambda j: loads[j])
        parts[k].append(it); loads[k] += it['cost']
    tmp = tempfile.mkdtemp(prefix='seedrun_par_')
    procs = []
    for k, r in enumerate(repos):
        ip, op = os.path.join(tmp, 'items%d.json' % k), os.path.join(tmp, 'out%d.json' % k)
        parts[k].sort(key=lambda i: (i['kind'] != 'seed', i['name']))
        json.dump(parts[k], open(ip, 'w'))
        procs.append((subprocess.Popen([sys.executable, os.path.abspath(__file__), '--worker', str(k), r, ip, op]), op))
        print('worker %d on %s: %d items, cost %d' % (k, r, len(parts[k]), loads[k]), flush=True)
    rows = {}
    for pr, op in procs:
        pr.wait()
        for r in json.load(open(op)):
            rows[(r['kind'], r['patch'])] = r['row']
    out = ['# Seeded changes vs. the checks (generated by tools/seedrun_par.py)', '', '| seed | property | exit | verdict |', '|---|---|---|---|']
    out += [rows[('seed', i['patch'])] for i in items if i['kind'] == 'seed']
    out += ['', '## Harmless edits (every check that reads the touched file, on every edit; exit 1 would be a false alarm)', '', '| edit | exits != 0 |', '|---|---|']
    out += [rows[('harmless', i['patch'])] for i in items if i['kind'] == 'harmless']
    open(os.path.join(ROOT, 'seeded', 'RESULTS.md'), 'w').write('\n'.join(out) + '\n')
    print('RESULTS.md written: %d rows' % len(rows))


if __name__ == '__main__':
    main()
