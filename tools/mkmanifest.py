#!/usr/bin/env python3
"""Writes MANIFEST.json from the registry (so the two cannot drift)."""
import json, os, sys
sys.path.insert(0, os.path.dirname(os.path.abspath(__file__)))
import registry

BASE = ("cd /repo && cargo nextest run --workspace --no-fail-fast --test-threads 8 --offline "
        "|| cargo test --workspace --no-fail-fast --offline")
checks = []
for pid in sorted(registry.PROPS):
    P = registry.PROPS[pid]
    checks.append({
        'property_id': pid,
        'quick_cmd': './check %s --tier quick' % pid,
        'thorough_cmd': './check %s --tier thorough' % pid,
        'evidence_file': '/verif/evidence/%s.json' % pid,
        'replay_cmd_template': './check %s --replay {path}' % pid,
        'engine': 'contracts',
        'level_claimed': {'category': P['level'], 'text': P['level_text'], 'design_ref': P.get('design_ref', 'DESIGN.md section 5')},
        'level_note': P['level_note'],
        'technique': P['technique'],
    })
m = {
    'version': 1,
    'setup_cmd': './setup.sh',
    'hooks': {
        'guard': '--cfg oxlip_lang_oal_verif',
        'enable': 'none needed: Verus works on text extracted from /repo on every run; Kani harness crates #[path]-include the real source files',
        'baseline_off_cmd': BASE,
        'source_commits': registry.HOOK_COMMITS,
        'add_only': True,
    },
    'engines': [{
        'name': 'contracts', 'path': '/verif/check',
        'serves_properties': sorted(registry.PROPS),
        'kind_free_text': 'contract-based deductive verification: Verus (Z3) on functions extracted mechanically from /repo on every run; '
                          'Kani/CBMC for loop-free full-domain harnesses (complete), bounded stand-ins (labelled) and counterexample replay',
    }],
    'checks': checks,
    'not_applicable': [{'property_id': k, 'reason': v} for k, v in sorted(registry.NOT_APPLICABLE.items()) if k not in registry.PROPS],
    'notes': 'See DESIGN.md. Exit 2 = undecided (lost anchor / unsupported construct / rlimit / vacuity guard), never reported as a violation.',
}
json.dump(m, open(os.path.join(os.path.dirname(os.path.dirname(os.path.abspath(__file__))), 'MANIFEST.json'), 'w'), indent=1)
print('MANIFEST.json written: %d checks, %d not applicable' % (len(checks), len(m['not_applicable'])))
