"""Kani back end: complete (loop-free, full-domain) harnesses, bounded stand-ins, replay.

All harness crates live in /verif/kani (offline workspace, target dir /verif/.target) and
#[path]/include! the REAL source files of /repo, so they are rebuilt from the working tree.
"""
import os
import sys
import re
import shutil
import subprocess
import time

ROOT = os.path.dirname(os.path.dirname(os.path.abspath(__file__)))
sys.path.insert(0, os.path.join(ROOT, 'tools'))
KDIR = os.path.join(ROOT, 'kani')
REPO = os.environ.get('VERIF_REPO', '/repo')
TARGET = os.path.join(ROOT, '.target')


def _env():
    e = dict(os.environ)
    e['CARGO_NET_OFFLINE'] = 'true'
    e['CARGO_TARGET_DIR'] = TARGET
    return e


def _prepare():
    """Pin dependency versions to /repo's lock file; check the backtrace stub is sound."""
    src = os.path.join(REPO, 'Cargo.lock')
    # the workspace lock is regenerated offline from the registry cache by cargo itself; we only
    # make sure no oal source mentions `backtrace` (the one crate we stub out)
    out = subprocess.run(['grep', '-rl', '--include=*.rs', r'\bbacktrace\b', REPO + '/oal-compiler/src', REPO + '/oal-model/src',
                          REPO + '/oal-syntax/src', REPO + '/oal-client/src', REPO + '/oal-openapi/src'],
                         capture_output=True, text=True)
    if out.stdout.strip():
        return 'backtrace is mentioned by %s: the empty stub is no longer sound' % out.stdout.strip()
    return None


MEM_LIMIT = 20 * 1024 ** 3


def _limit():
    import resource
    resource.setrlimit(resource.RLIMIT_AS, (MEM_LIMIT, MEM_LIMIT))


def run_cargo_kani(package, harness, extra=None, timeout=1800):
    cmd = ['cargo', 'kani', '-p', package, '--harness', harness] + (extra or [])
    # one cargo-kani at a time on the shared workspace and target directory, across threads and across concurrently running checks
    # (two at once race on the workspace lock file and the build directory and one of them fails with a cargo error: undecided for no reason)
    import fcntl
    os.makedirs(TARGET, exist_ok=True)
    lock = open(os.path.join(TARGET, '.kani.lock'), 'w')
    fcntl.flock(lock, fcntl.LOCK_EX)
    t0 = time.time()
    try:
        p = subprocess.run(cmd, cwd=KDIR, env=_env(), capture_output=True, text=True, timeout=timeout, preexec_fn=_limit)
        out = p.stdout + p.stderr
        rc = p.returncode
    except subprocess.TimeoutExpired as e:
        out = ((e.stdout or b'').decode('utf8', 'replace') if isinstance(e.stdout, bytes) else (e.stdout or '')) + '\nTIMEOUT'
        rc = -9
    finally:
        fcntl.flock(lock, fcntl.LOCK_UN)
        lock.close()
    return ' '.join(cmd), out, rc, time.time() - t0


def run_harness(h, with_playback=False):
    """h: {package, harness, obligation, bounded(bool), bound(str), flags[list], timeout}"""
    res = {'harness': '%s::%s' % (h['package'], h['harness']), 'obligation': h['obligation'], 'bounded': h.get('bounded', False),
           'bound': h.get('bound', ''), 'status': 'undecided', 'detail': '', 'cmd': '', 'wall_s': 0.0}
    bad = _prepare()
    if bad:
        res['detail'] = bad
        return res
    if h.get('pre_extract'):
        # harness crates that verify text extracted mechanically from /repo: regenerate it now
        import extract
        tpl, outp = h['pre_extract']
        try:
            extract._SRC_CACHE.clear()
            extract.expand(os.path.join(ROOT, tpl), os.path.join(ROOT, outp))
        except extract.Undecided as e:
            res['detail'] = 'extraction for the bounded harness failed: %s' % e
            return res
    flags = list(h.get('flags') or [])
    if with_playback and h.get('decode'):
        flags += ['-Z', 'concrete-playback', '--concrete-playback=print']
    cmd, out, rc, wall = run_cargo_kani(h['package'], h['harness'], flags, h.get('timeout', 1800))
    res['cmd'] = 'cd kani && CARGO_NET_OFFLINE=true ' + cmd
    res['wall_s'] = round(wall, 1)
    m = re.search(r'\*\* (\d+) of (\d+) failed', out)
    if m:
        res['checks'] = int(m.group(2))
    if 'VERIFICATION:- SUCCESSFUL' in out and m and int(m.group(1)) == 0:
        if h.get('expect_stub') and not re.search(h['expect_stub'], out):
            res['detail'] = 'expected stub line %s missing' % h['expect_stub']
            return res
        if res.get('checks', 0) == 0:
            res['detail'] = 'vacuous: zero checks'
            return res
        res['status'] = 'pass'
        return res
    if 'VERIFICATION:- FAILED' in out:
        fails = re.findall(r'Check \d+: ([^\n]+)\n\s+- Status: FAILURE\n\s+- Description: "([^"]*)"(?:\n\s+- Location: ([^\n]+))?', out)
        # unwinding assertion failures mean the bound is too small: undecided, not a violation
        real = [f for f in fails if 'unwinding assertion' not in f[1]]
        if fails and not real:
            res['detail'] = 'unwinding bound exceeded: %s' % fails[0][0]
            return res
        if not fails:
            res['detail'] = 'CBMC failed without a failing check (out of memory / internal error): %s' % out[-300:]
            return res
        res['status'] = 'fail'
        res['detail'] = '; '.join('%s (%s)' % (f[1], f[2]) for f in real[:5]) or 'verification failed'
        res['output'] = out[-4000:]
        res['counterexample'] = playback(h, out if with_playback else None)
        return res
    res['detail'] = 'kani did not finish (rc=%s): %s' % (rc, out[-600:])
    return res


def playback(h, out=None):
    """Run the harness with concrete playback, decode the values, re-execute on the real code."""
    dec = h.get('decode')
    if not dec:
        return None
    if out is None:
        cmd, out, rc, wall = run_cargo_kani(h['package'], h['harness'], (h.get('flags') or []) + ['-Z', 'concrete-playback', '--concrete-playback=print'], h.get('timeout', 1800))
    m = re.search(r'let concrete_vals: Vec<Vec<u8>> = vec!\[(.*?)\];', out, re.S)
    if not m:
        return None
    vals = [[int(x) for x in v.split(',') if x.strip()] for v in re.findall(r'vec!\[([^\]]*)\]', m.group(1))]
    try:
        return DECODERS[dec](vals)
    except Exception as e:  # decoding is best effort
        return {'raw_values': vals, 'decode_error': repr(e)}


def _le(v):
    return sum(b << (8 * i) for i, b in enumerate(v))


def _build_bin(package, binname):
    p = subprocess.run(['cargo', 'build', '-q', '-p', package, '--bin', binname], cwd=KDIR, env=_env(), capture_output=True, text=True)
    path = os.path.join(TARGET, 'debug', binname)
    return path if p.returncode == 0 and os.path.exists(path) else None


def dec_unicode_text_idx(vals):
    n = 4
    buf = [v[0] for v in vals[:n]]
    ln = _le(vals[n])
    text = bytes(buf[:ln])
    rest = [_le(v) for v in vals[n + 1:]]
    exe = _build_bin('vk-unicode', 'replay_unicode')
    cex = {'text_bytes_hex': text.hex(), 'text': text.decode('utf8', 'replace'), 'args': rest}
    if exe:
        outs = []
        for idx in rest[:2]:
            r = subprocess.run([exe, text.hex(), str(idx)], capture_output=True, text=True)
            outs.append(r.stdout.strip() or r.stderr.strip()[-300:])
        cex['replayed_on_real_code'] = outs
    return cex


def dec_unicode_text_pos(vals):
    n = 4
    buf = [v[0] for v in vals[:n]]
    ln = _le(vals[n])
    text = bytes(buf[:ln])
    line, ch = _le(vals[n + 1]), _le(vals[n + 2])
    exe = _build_bin('vk-unicode', 'replay_unicode')
    cex = {'text_bytes_hex': text.hex(), 'text': text.decode('utf8', 'replace'), 'position': [line, ch]}
    if exe:
        r = subprocess.run([exe, text.hex(), '0', str(line), str(ch)], capture_output=True, text=True)
        cex['replayed_on_real_code'] = r.stdout.strip() or r.stderr.strip()[-300:]
    return cex


def dec_raw(vals):
    return {'raw_values': vals, 'as_le_integers': [_le(v) for v in vals]}


DECODERS = {'unicode_text_idx': dec_unicode_text_idx, 'unicode_text_pos': dec_unicode_text_pos, 'raw': dec_raw}

# harnesses that can produce a concrete input for a failed Verus obligation, by obligation prefix
_U = {'package': 'vk-unicode', 'bounded': True, 'bound': 'texts <= 4 bytes', 'timeout': 900}
REPLAY_HARNESSES = [
    ('C16.p2u', dict(_U, harness='p2u_matches_reference', obligation='C16.p2u', decode='unicode_text_pos')),
    ('C16.u2p', dict(_U, harness='u2p_matches_reference', obligation='C16.u2p', decode='unicode_text_idx')),
    ('C16.range', dict(_U, harness='u2p_matches_reference', obligation='C16.range', decode='unicode_text_idx')),
    ('C16.', dict(_U, harness='roundtrip', obligation='C16.roundtrip', decode='unicode_text_idx')),
]


def find_counterexamples(prop, obligations):
    """For failed Verus obligations: run each matching bounded Kani harness once (in parallel, with
    concrete playback) and return {obligation: counterexample}."""
    import concurrent.futures as cf
    need = {}
    for o in obligations:
        for prefix, h in REPLAY_HARNESSES:
            if o.startswith(prefix):
                need.setdefault(h['harness'], (h, []))[1].append(o)
                break
    out = {}
    if not need:
        return out
    with cf.ThreadPoolExecutor(max_workers=4) as ex:
        futs = {name: ex.submit(run_harness, dict(h, timeout=min(h.get('timeout', 600), 600)), True) for name, (h, _) in need.items()}
        for name, f in futs.items():
            r = f.result()
            if r['status'] == 'fail' and r.get('counterexample'):
                c = dict(r['counterexample'])
                c['found_by'] = 'kani %s (%s): %s' % (r['harness'], need[name][0].get('bound', ''), r['detail'])
                for o in need[name][1]:
                    out[o] = c
    return out
