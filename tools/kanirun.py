"""Kani back end: complete (loop-free, full-domain) harnesses, bounded stand-ins, replay."""
import os
import re
import subprocess
import time

ROOT = os.path.dirname(os.path.dirname(os.path.abspath(__file__)))


def run_harness(h):
    return {'harness': h.get('name'), 'status': 'undecided', 'detail': 'kani runner not configured', 'obligation': h.get('obligation'), 'cmd': '', 'wall_s': 0}


def find_counterexample(prop, obligation):
    return None
