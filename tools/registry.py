"""Registry: which units serve which property, and the static token scans."""
import os
import re
import sys

sys.path.insert(0, os.path.dirname(os.path.abspath(__file__)))
import rustscan as rs  # noqa: E402

REPO = os.environ.get('VERIF_REPO', '/repo')

UNITS = {
    'c14': {
        'template': 'contracts/c14.vrs',
        'mutants': [
            ('schemas_replaces_components', 'definition .components .get_or_insert(Default::default()) .schemas = components.schemas;',
             'definition.components = Some(components);', ['C14.components.frame']),
            ('paths_not_replaced', 'definition.paths = paths;', '', ['C14.paths']),
            ('cli_base_not_applied', 'builder = builder.with_base(base);', '', ['C14.cli']),
            ('playground_returns_error_text_as_document', 'api: string_default(),', 'api: err.to_string(),', ['C13.playground.compile']),
        ('cli_exit_codes_swapped', 'ExitCode::FAILURE } else { ExitCode::SUCCESS }', 'ExitCode::SUCCESS } else { ExitCode::FAILURE }', ['C13.cli.main']),
        ('cli_write_error_ignored', 'fs_write_file(&target, api_yaml, fslog)?;', 'let _ = fs_write_file(&target, api_yaml, fslog);', ['C13.cli.run']),
        ('cli_writes_before_serialising', 'let api_yaml = serde_yaml::to_string(&api)?;', 'fs_write_file(&target, String::new(), fslog)?; let api_yaml = serde_yaml::to_string(&api)?;', ['C13.cli.run']),
        ('cli_writes_default_document', 'let api = builder.into_openapi();', 'let api = oal_openapi::Builder::new(proc.eval(&mods)?).into_openapi();', ['C14.cli']),
        ],
    },
}

UNITS['c16'] = {
    'template': 'contracts/c16.vrs',
    'mutants': [
        ('p2u_len_utf16_is_1', 'character += c.len_utf16() as u32; } else if c ==', 'character += 1; } else if c ==', ['C16.p2u']),
        ('p2u_no_cr_stop', "|| c == '\\n' || c == '\\r' {", "|| c == '\\n' {", ['C16.p2u']),
        ('u2p_gt_instead_of_ge', 'if utf8_index >= index {', 'if utf8_index > index {', ['C16.u2p']),
        ('u2p_no_column_reset', 'line += 1; character = 0;', 'line += 1;', ['C16.u2p']),
        ('char_index_gt', 'if utf8_index >= index { return char_index; }', 'if utf8_index > index { return char_index; }', ['C16.char_index']),
        ('range_end_is_start', 'let end = utf8_to_position(text, range.end);', 'let end = utf8_to_position(text, range.start);', ['C16.range']),
    ],
}

UNITS['c15'] = {
    'template': 'contracts/c15.vrs',
    'mutants': [
        ('end_uses_start', 'let end = position_to_utf8(text, r.end);', 'let end = position_to_utf8(text, r.start);', ['C15.change']),
        ('full_text_ignored', '*text = change.text;', '', ['C15.change']),
        ('close_removes_nothing', 'self.docs.remove(&loc);', '', ['C15.close']),
        ('diagnostics_only_for_documents_with_errors', 'let mut diags = empty_list_for_every_key(&self.docs);', 'let mut diags = empty_list_for_every_key(&HashMap::new());', ['C15.diagnostics']),
        ('open_drops_text', 'self.docs.insert(loc.clone(), p.text_document.text);', 'self.docs.insert(loc.clone(), String::new());', ['C15.open']),
    ],
}

UNITS['c07'] = {
    'template': 'contracts/c07.vrs',
    'mutants': [
        ('occurs_skips_range', 'occurs(a, range) || {', 'false || {', ['C07.occurs']),
        ('occurs_skips_property', 'occurs(a, prop)', 'false', ['C07.occurs']),
        ('occurs_skips_bindings', 'if occurs(a, binding) {', 'if false {', ['C07.occurs']),
        ('compress_wrong_way', 'self.parents[v] = w;', 'self.parents[w] = v;', ['C07.uf']),
        ('reduce_no_progress', 'v_ = parent;', 'v_ = v_;', ['C07.uf']),
        ('union_direction_flipped', 'self.parents[vrep] = wrep;', 'self.parents[wrep] = vrep;', ['C07.uf.union', 'C07.uf.nopanic.union']),
        ('union_links_element_not_root', 'self.parents[vrep] = wrep;', 'self.parents[v] = wrep;', ['C07.uf']),
        ('reduce_stops_one_early', 'if parent == v_ { return v_; }', 'if parent == v_ || self.parents[parent] == parent { return v_; }', ['C07.uf.reduce']),
        ('unify_no_occurs_on_right_variable', 'if occurs(&right, &left) {', 'if false {', ['C07.unify.occurs_before_bind']),
        ('unify_arity_only_checks_shorter_left', 'if left_bindings.len() != right_bindings.len() {', 'if left_bindings.len() > right_bindings.len() {', ['C07.unify.head_sound']),
        ('unify_head_mismatch_accepted', 'Err(Error::new( Kind::InvalidType, "mismatch", ))', 'Ok(())', ['C07.unify.head_sound']),
        ('find_reports_no_reduction', 'Some((self.tags.get_index(vrep).unwrap(), vrep != v))', 'Some((self.tags.get_index(vrep).unwrap(), false))', ['C07.uf.find']),
    ],
}

UNITS['lex'] = {
    'template': 'contracts/lex.vrs',
    'mutants': [
        ('range_start_only', 'list.push(token, range);', 'list.push(token, range.start..range.start);', ['C11.tok', 'C04.lex.tokenize']),
        ('quoted_keeps_delimiter', 'str_slice(input, 1..len - 1)', 'str_slice(input, 1..len)', ['C11.tok', 'C04.lex']),
        ('prefixed_keeps_prefix', 'str_slice_from(input, 1)', 'str_slice_from(input, 0)', ['C11.tok', 'C04.lex']),
        ('number_unwrap', 'str_parse_u64(input).ok()', 'Some(str_parse_u64(input).unwrap())', ['C04.lex']),
        ('error_dropped', 'Err(_) => { let span = Span::new(loc.clone(), range); errors.push(ParserError::new(span));', 'Err(_) => { let span = Span::new(loc.clone(), range);', ['C11.tok', 'C04.lex.tokenize']),
        ('error_span_one_byte', 'Err(_) => { let span = Span::new(loc.clone(), range);', 'Err(_) => { let span = Span::new(loc.clone(), range.start..range.start + 1);', ['C11.tok', 'C04.lex.tokenize']),
        ('http_status_off_by_one', "'4' => atom::HttpStatusRange::ClientError,", "'4' => atom::HttpStatusRange::ServerError,", ['C11.tok', 'C04.lex']),
    ],
}

UNITS['tok'] = {
    'template': 'contracts/tok.vrs',
    'mutants': [
        ('skip_trivia_skips_every_token', 'while s_.is_valid() && G::Lex::is_trivia(self.tree.tokens.kind(s_))', 'while s_.is_valid()', ['C11.skip_trivia']),
        ('eoi_uses_token_count', 'let end = self.tree.tokens.end();', 'let end = self.tree.tokens.len();', ['C11.span']),
        ('eoi_span_empty', 'end..end + 1', 'end..end', ['C11.span']),
        ('end_is_start_of_last', 'Some((_, range)) => range.end,', 'Some((_, range)) => range.start,', ['C11.tok.end', 'C11.list.end']),
        ('advance_stays', 'Some(id) => self.arena.next_token(id),', 'Some(id) => Some(id),', ['C11.list.advance']),
        ('token_span_of_head', 'let (token, range) = self.arena.get(id).unwrap();', 'let (token, range) = self.arena.get(self.arena.head_token().unwrap()).unwrap();', ['C11.span', 'C11.list.token_span']),
    ],
}

_KANI_CONV = [
    {'package': 'vk-conv', 'harness': 'quoted_string_text', 'obligation': 'C11.kani.quoted_text', 'bounded': True, 'bound': 'all UTF-8 texts <= 4 bytes with matching quote / backtick delimiters (real parse_quoted_string)', 'tier': 'thorough', 'decode': 'raw', 'timeout': 300, 'fallback_for': ['lex']},
    {'package': 'vk-conv', 'harness': 'prefixed_string_text', 'obligation': 'C11.kani.prefixed_text', 'bounded': True, 'bound': 'all UTF-8 texts <= 4 bytes starting with # / or quote (real parse_prefixed_string)', 'tier': 'thorough', 'decode': 'raw', 'timeout': 300, 'fallback_for': ['lex']},
    {'package': 'vk-conv', 'harness': 'http_status_literal', 'obligation': 'C11.kani.http_status_literal', 'bounded': True, 'bound': 'the five texts [1-5]XX (real parse_http_status)', 'tier': 'thorough', 'decode': 'raw', 'timeout': 600, 'fallback_for': ['lex']},
]

_KANI_STATUS = {'package': 'vk-status', 'harness': 'status_try_from_total_and_domain', 'bounded': False,
                'bound': 'loop-free, full u64 domain (complete)', 'tier': 'quick', 'decode': 'raw', 'timeout': 900}

UNITS['c08'] = {
    'template': 'contracts/c08.vrs',
    'mutants': [
        ('close_pops_nothing', 'self.0.pop();', '', ['C08.env.close']),
        ('open_pushes_nothing', 'self.0.push(Scope::new());', '', ['C08.env.open']),
        ('lookup_reads_outermost_scope', 'let __x9_1_0 = &self.0[__k9_1];', 'let __x9_1_0 = &self.0[0];', ['C08.env.lookup']),
        ('dependency_edge_reversed', 'self.graph.add_edge(from_idx, to_idx, ());', 'self.graph.add_edge(to_idx, from_idx, ());', ['C09.resolve.builder.connect']),
        ('declaration_not_opened_in_graph', 'defg.open(External::new(decl.node()));', '', ['C09.resolve.', 'C08.resolve.']),
        ('builder_close_keeps_current', 'self.current = None;', '', ['C09.resolve.builder.close']),
        ('use_ignores_qualifier', 'let entry = Entry::new(var.ident(), qualifier);', 'let entry = Entry::new(var.ident(), None);', ['C08.resolve.use_']),
        ('duplicate_not_reported', 'if env.declare(entry, defn).is_some() {', 'if env.declare(entry, defn).is_some() && false {', ['C08.resolve.duplicate_declaration_is_error']),
        ('recursion_scope_not_closed', 'close_recursion(env)?;', '', ['C08.resolve.']),
        ('declaration_scope_not_closed', 'defg.close(); env.close();', 'defg.close();', ['C08.resolve.close_pops_one_scope']),
        ('rec_binder_into_enclosing_scope', 'env.open(); let binding = rec.binding();', 'let binding = rec.binding();', ['C08.resolve.recursion_opens_binder_scope', 'C08.resolve.open_recursion']),
        ('import_ignores_qualifier', 'let entry = Entry::new(decl.ident(), import.qualifier());', 'let entry = Entry::new(decl.ident(), None);', ['C08.resolve.import_declares_under_qualifier', 'C08.resolve.declare_import']),
        # ('variables_resolved_before_binders_open', ..) was dropped in 12.40: since the dependency contracts speak about the edge relation the mutated loop exhausts the resource limit instead of failing an obligation (inconclusive, not a kill)
    ],
}

UNITS['c17'] = {
    'template': 'contracts/c17.vrs',
    'mutants': [
        ('every_qualified_variable_renamed', '(Some(reference), Some(definition)) if reference == definition =>', '(Some(reference), Some(definition)) =>', ['C18.rename_qualifier']),
        ('prepare_rename_offers_the_whole_declaration', 'Some(decl.identifier().node())', 'Some(decl.node())', ['C18.prepare_rename']),
        ('rename_skips_the_binder_name', 'changes.insert(decl_location.uri, vec_one(decl_edit));', '', ['C18.rename_variable']),
        ('rename_use_replaces_earlier_edits', 'changes.push_edit(r.uri, edit);', 'changes.insert(r.uri, vec_one(edit));', ['C18.rename_variable']),
        ('refs_report_every_variable', 'if definition == core_ref_of(var.node()).definition().unwrap() {', 'if true {', ['C17.find_references']),
        ('refs_report_the_variable_node', 'node_location(workspace, var.identifier().node())?', 'node_location(workspace, var.node())?', ['C17.find_references']),
        ('definition_of_declaration_is_its_identifier', 'Some(Definition::External(External::new(decl.node())))', 'Some(Definition::External(External::new(ident.node())))', ['C17.find_definition']),
        ('definition_grandparent_off_by_one', 'ident.node().ancestors().nth(1).unwrap()', 'ident.node().ancestors().nth(2).unwrap()', ['C17.find_definition']),
        ('goto_returns_the_use', 'let definition = ext.node(folder.modules().unwrap());', 'let definition = v.node();', ['C17.go_to_definition']),
        ('location_uses_start_only', 'let range = utf8_range_to_position(&text, span.range());', 'let range = utf8_range_to_position(&text, span.range().start..span.range().start);', ['C17.node_location']),
    ],
}

UNITS['c06'] = {
    'template': 'contracts/c06.vrs',
    'mutants': [
        ('examples_not_collected', 'collect_insert(&mut __acc15_1, __item15);', '', ['C06.']),
        ('example_keyed_by_url', '(clone_string(name), ReferenceOr::Item(example))', '(clone_string(url), ReferenceOr::Item(example))', ['C06.']),
        ('schema_examples_preferred', 'match content .examples .as_ref() { Some(__v8f) => Some(__v8f), None => match content.schema.as_ref() { Some(s) => s.examples.as_ref(), None => None } }',
         'match (match content.schema.as_ref() { Some(s) => s.examples.as_ref(), None => None }) { Some(__v8f) => Some(__v8f), None => content.examples.as_ref() }', ['C06.examples']),
    ],
}

UNITS['c02'] = {
    'template': 'contracts/c02.vrs',
    'mutants': [
        ('post_operation_in_put_slot', 'atom::Method::Post => path_item.post = Some(op),', 'atom::Method::Post => path_item.put = Some(op),', ['C02.path_item', 'C02.relation_path_item']),
        ('delete_operation_dropped', 'atom::Method::Delete => path_item.delete = Some(op),', 'atom::Method::Delete => {},', ['C02.path_item', 'C02.relation_path_item']),
        ('request_body_as_if_no_transfer_declared', 'request_body: self.xfer_request(xfer),', 'request_body: None,', ['C02.path_item', 'C02.relation_path_item']),
        ('header_params_dropped', 'params.push(ReferenceOr::Item(self.prop_header_param(p)));', '', ['C02.params', 'C02.xfer_params']),
        ('query_params_as_headers', 'params.push(ReferenceOr::Item(self.prop_query_param(p)));', 'params.push(ReferenceOr::Item(self.prop_header_param(p)));', ['C02.params', 'C02.xfer_params']),
        ('path_keyed_by_constant', 'rel.uri.pattern(),', 'String::new(),', ['C02.paths', 'C02.all_paths']),
        ('default_response_replaced', 'opt_get_or_insert(&mut default,', 'opt_insert(&mut default,', ['C02.responses']),
        ('status_response_never_reused', 'entry_or_insert(&mut responses, self.http_status_code(s), ReferenceOr::Item(Response::default()))', 'opt_insert(&mut default, ReferenceOr::Item(Response::default()))', ['C02.responses', 'C02.xfer_responses']),
        ('media_type_not_inserted', 'res.content.insert(media_type, media_schema);', '', ['C02.responses', 'C02.xfer_responses']),
        ('request_body_without_schema', 'schema: Some(self.schema(schema)), examples: self.content_examples(domain),', 'schema: None, examples: self.content_examples(domain),', ['C02.request', 'C02.domain_request']),
        ('header_required_flag_dropped', 'required: opt_bool_or_false(&prop.required),', 'required: false,', ['C02.headers', 'C02.prop_header']),
        ('header_keyed_by_description', 'str_to_owned(p.name.as_ref()),', 'String::new(),', ['C02.headers', 'C02.content_headers']),
        ('method_label_put_is_post', 'atom::Method::Put => "put",', 'atom::Method::Put => "post",', ['C02.method_label']),
    ],
}

UNITS['c13'] = {
    'template': 'contracts/c13.vrs',
    'mutants': [
        ('digest_skips_generation', 'digest.update(u64_to_be_bytes(generation));', '', ['C13.digest']),
    ],
}

UNITS['c13l'] = {
    'template': 'contracts/c13l.vrs',
    'mutants': [
        ('parse_drops_the_lexical_errors', 'let mut errs = lexical_errors(lex_errs);', 'let mut errs: Vec<Error> = Vec::new();', ['C13.parse']),
        ('parse_swallows_a_parser_failure', 'errs.push(Error::from(err)); (None, errs)', '(None, errs)', ['C13.parse']),
        ('lsp_diagnostics_drops_errors_of_already_seen_documents', 'diags.push_diag(loc, diag);', 'if false { diags.push_diag(loc, diag); }', ['C13.lsp.diagnostics']),
        ('cli_ignores_syntax_errors_when_a_tree_exists', 'if let Some(err) = errs.pop() {', 'if let (Some(err), true) = (errs.pop(), tree.is_none()) {', ['C13.cli.parse']),
        ('lsp_eval_swallows_the_error', 'self.log_compiler_error(&loc, &err); Err(anyhow_msg("evaluation failed"))', 'Err(anyhow_msg("evaluation failed"))', ['C13.lsp.eval']),
        ('lsp_logs_only_the_first_syntax_error', 'self.0.log_syntax_errors(&loc, &errs);', 'if errs.len() > 0 { self.0.log_syntax_errors(&loc, errs.split_at(1).0); }', ['C13.lsp.parse']),
        ('playground_compile_error_becomes_success', 'let err = report_or_internal_error(report(self.0, span, err)); Err(anyhow_msg(err))', 'let _err = report_or_internal_error(report(self.0, span, err)); Ok(())', ['C13.playground.compile_module']),
    ],
}

UNITS['c11t'] = {
    'template': 'contracts/c11t.vrs',
    'mutants': [
        ('start_takes_the_last_child_with_a_token', 'while __k < __ch.len() && __r.is_none()', 'while __k < __ch.len()', ['C11.noderef.start']),
        ('end_scans_from_the_second_to_last_child', 'let mut __k: usize = __ch.len(); while __k > 0 && __r.is_none()', 'let mut __k: usize = if __ch.len() > 0 { __ch.len() - 1 } else { 0 }; while __k > 0 && __r.is_none()', ['C11.noderef.end']),
        ('node_span_ends_where_the_last_token_starts', 'Some(Span::new(s.locator().clone(), s.start()..e.end()))', 'Some(Span::new(s.locator().clone(), s.start()..e.start()))', ['C11.noderef.span']),
        ('token_child_becomes_an_error_node', 'ParserMatch::Token(t) => self.tree.new_node(SyntaxNode::new(SyntaxTrunk::Leaf(t))),', 'ParserMatch::Token(t) => self.tree.new_node(SyntaxNode::new(SyntaxTrunk::Error)),', ['C11.compose_node']),
        ('empty_compose_builds_a_node', 'if children.is_empty() { return ParserMatch::Syntax(kind); }', '', ['C11.compose']),
        ('child_attached_to_itself', 'self.tree.append(parent, n)', 'self.tree.append(n, n)', ['C11.compose_node']),
    ],
}

UNITS['c10j'] = {
    'template': 'contracts/c10j.vrs',
    'mutants': [
        ('empty_import_path_is_joined', 'if str_is_empty(path) {', 'if false {', ['C10.join']),
        ('join_ignores_the_path', 'match self.url.join(path) {', 'match self.url.join("x") {', ['C10.join']),
    ],
}

UNITS['c12'] = {
    'template': 'contracts/c12.vrs',
    'mutants': [
        ('cache_stores_when_bypassed', 'if !self.no_cache {', 'if true {', ['C12.cache']),
        ('lookup_ignores_the_bypass', 'if self.no_cache { return None; }', '', ['C12.lookup']),
        ('memoize_stores_under_another_cursor', 'c.cache(t, s, clone_value(&r));', 'c.cache(t, Cursor { pos: 0 }, clone_value(&r));', ['C12.memoize']),
        ('memoize_does_not_store', 'c.cache(t, s, clone_value(&r));', '', ['C12.memoize']),
        ('memoize_stores_successes_only', 'c.cache(t, s, clone_value(&r));', 'if r.is_ok() { c.cache(t, s, clone_value(&r)); }', ['C12.memoize']),
        ('memoize_stores_before_running', 'let r = call_production(p, c, s);\n        c.cache(t, s, clone_value(&r));', 'let r0 = c.lookup(t, s); let r = call_production(p, c, s);\n        if let Some(x) = r0 { c.cache(t, s, x); }', ['C12.memoize']),
    ],
}

UNITS['c10'] = {
    'template': 'contracts/c10.vrs',
    'mutants': [
        ('known_import_edge_to_root', 'graph.add_edge(*m, n, ());', 'graph.add_edge(*m, root, ());', ['C10.']),
        ('deps_records_importer', 'deps.insert(import, m);', 'deps.insert(import, n);', ['C10.']),
        ('edge_flipped_new', 'graph.add_edge(m, n, ());', 'graph.add_edge(n, m, ());', ['C10.']),
        ('edge_flipped_known', 'graph.add_edge(*m, n, ());', 'graph.add_edge(n, *m, ());', ['C10.']),
        ('deps_not_recorded', 'deps.insert(import, m);', '', ['C10.']),
        ('validity_not_checked', 'if !loader.is_valid(&target) {', 'if false {', ['C10.']),
        ('new_module_not_queued', 'queue.push(m);', '', ['C10.']),
        ('module_not_stored', 'mods.insert(module);', '', ['C10.']),
        ('popped_node_requeued', 'queue.push(m);', 'queue.push(m); queue.push(n);', ['C10.terminates', 'C10.']),
        ('known_import_requeued', 'graph.add_edge(*m, n, ());', 'graph.add_edge(*m, n, ()); queue.push(*m);', ['C10.terminates', 'C10.']),
    ],
}

UNITS['c03'] = {
    'template': 'contracts/c03.vrs',
    'mutants': [
        ('concat_keeps_the_empty_seam_segment', 'self.path.pop();', '', ['C02.uri.append']),
        ('concat_keeps_the_left_parameters', 'self.params = other_.params;', '', ['C02.uri.append']),
        ('duplicate_check_forgets_the_names', 'names.push(&p.name);', '', ['C03.path.duplicate_variable']),
        ('explicit_operation_id_ignored', 'if xfer.id.is_some() { return clone_opt_string(&xfer.id); }', '', ['C03.opid.xfer_id']),
        ('variable_segments_all_labelled_alike', 'spec::UriSegment::Variable(t) => str_to_lowercase(t.name.as_ref()),', 'spec::UriSegment::Variable(t) => root_label(),', ['C03.opid.uri_segment_label']),
        ('path_param_optional', 'parameter_data: self.prop_param_data(prop, true),', 'parameter_data: self.prop_param_data(prop, false),', ['C03.path']),
        ('variable_without_braces', '{ format_braced(&p.name) }', '{ str_to_string(p.name.as_ref()) }', ['C03.path']),
        ('path_param_skipped_for_first', 'params.push(ReferenceOr::Item(self.prop_path_param(p)));', 'if params.len() > 0 { params.push(ReferenceOr::Item(self.prop_path_param(p))); }', ['C03.path']),
        ('ref_to_wrong_name', 'format_schema_ref(name.untagged())', 'format_schema_ref(str_to_string(name.s.as_str()))', ['C03.ref']),
        ('component_under_raw_name', 'schemas.insert(name.untagged(), self.schema(s));', 'schemas.insert(str_to_string(name.s.as_str()), self.schema(s));', ['C03.ref']),
        ('components_drop_objects', 'if self.maybe_inline(name).is_none() {', 'if self.maybe_inline(name).is_none() && schemas.v.len() < 1 {', ['C03.ref']),
        ('status_range_shifted', 'atom::HttpStatusRange::ServerError => 5,', 'atom::HttpStatusRange::ServerError => 6,', ['C03.status']),
    ],
}

def _fn_text_scan(name, file, impl, fn, must, must_not=None):
    return {'name': name, 'kind': 'fn_text', 'file': file, 'impl': impl, 'fn': fn, 'must': must, 'must_not': must_not or []}

UNITS['c01'] = {
    'template': 'contracts/c01.vrs',
    'rlimit': 30,
    'mutants': [
        ('duplicate_resource_path_not_rejected', 'if r.uri.pattern() == pattern { __r4_1 = true; break; }', 'if false { __r4_1 = true; break; }', ['C02.paths.eval_program', 'C01.site.eval_program']),
        ('duplicate_property_not_rejected', 'if q.name == p.name { __r4_1 = true; break; }', 'if false { __r4_1 = true; break; }', ['C02.object.eval_object', 'C01.site.eval_object']),
        ('duplicate_method_not_rejected', 'if xfers.is_filled(m) {', 'if false {', ['C02.relation.eval_relation', 'C01.site.eval_relation']),
        ('conflicting_alternative_not_rejected', 'if *prev != c {', 'if false {', ['C02.ranges.eval_variadic_operation', 'C01.site.eval_variadic_operation']),
        ('duplicate_path_variable_not_rejected', 'if let Some(p) = rel.uri.duplicate_variable() {', 'if let (Some(p), false) = (rel.uri.duplicate_variable(), true) {', ['C03.path.eval_program']),
        ('headers_guard_removed', 'if !matches!(rhs.0.dereference(), Expr::Object(_)) {', 'if false {', ['C01.site.eval_content']),
        ('domain_guard_removed', 'if !value.0.is_content_like() {', 'if false {', ['C01.site.eval_transfer']),
        ('resource_guard_removed', 'if !rel.0.dereference().is_uri_like() {', 'if false {', ['C01.site.eval_program']),
        ('uri_guard_removed', 'if !uri.0.dereference().is_uri_like() {', 'if false {', ['C01.site.eval_relation']),
        ('is_schema_admits_content', '| Tag::Any | Tag::Var(_) ) }', '| Tag::Any | Tag::Content | Tag::Var(_) ) }', ['C01.tagpred', 'C01.check', 'C01.site']),
        ('array_item_unchecked', 'if !get_tag(array.inner()).is_schema() {', 'if false {', ['C01.check.array']),
        ('object_props_unchecked', 'if !(get_tag(p).is_property()) { __r4_1 = false; break; }', 'if false { __r4_1 = false; break; }', ['C01.check.object']),
        ('type_check_skips_arrays', '} else if let Some(array) = syn::Array::cast(node) { check_array(array) }', '}', ['C01.check.type_check']),
        ('schema_like_admits_string', '| Expr::Recursion(_) )', '| Expr::Recursion(_) | Expr::String(_) )', ['C01.pred', 'C01.cast']),
        ('cast_object_through_content', 'Expr::Object(o) => *o, Expr::Reference(_, v) => cast_object(*v),', 'Expr::Object(o) => *o, Expr::Reference(_, v) => cast_object((Expr::Number(0), v.1)),', ['C01.cast.object']),
        # C08: the evaluator's scope stack
        ('rec_scope_not_popped', 'ctx.pop_scope(); ctx.refs.insert(', 'ctx.refs.insert(', ['C08.eval.scopes_balanced']),
        ('rec_binder_not_bound', 'scope.insert(rec.binding().ident(), recursion);', '', ['C08.eval.recursion.frame_holds_the_binder']),
        ('binding_read_from_outermost_frame', 'let __x9_1_0 = &self.scopes[__k9_1];', 'let __x9_1_0 = &self.scopes[0];', ['C08.eval.lookup_binding']),
        ('push_scope_pushes_nothing', 'self.scopes.push((self.scope_id_seq, scope));', '', ['C08.eval.push_scope']),
        ('callee_frame_pushed_over_an_extra_frame', "ctx.push_scope(scope); // the callee's body is evaluated under exactly one more frame than the caller's",
         "ctx.push_scope(HashMap::new()); ctx.push_scope(scope); // the callee's body is evaluated under exactly one more frame than the caller's", ['C08.eval.application.one_frame_for_the_callee', 'C08.eval.scopes_balanced']),
        # C09: cycles_check and component naming
        ('cycles_marks_every_member', 'if tag.is_schema() && !tag.is_uri() { mark_recursive(node, marked);', 'if true { mark_recursive(node, marked);', ['C09.cycles_check']),
        ('cycles_never_rejects', 'if inbounds.is_empty() { proof {', 'if false { proof {', ['C09.cycles_check']),
        ('cycles_trivial_ignores_self_loop', 'graph_.find_edge(idx, idx).is_none() };', 'true };', ['C09.cycles_check']),
        ('cycles_edges_not_removed', 'graph_.remove_edge(e);', '', ['C09.cycles_check']),
        ('cycles_outgoing_edges_cut', 'graph_.edges_directed(*index, Incoming)', 'graph_.edges_directed(*index, Direction::Outgoing)', ['C09.cycles_check']),
        ('rec_component_not_registered', 'ctx.refs.insert(ident.clone(), Some(clone_value(&rhs)));', '', ['C09.eval.recursion.is_reference_to_registered_component']),
        ('rec_name_ignores_scope', 'node_identifier(ctx, rec.node(), true)', 'node_identifier(ctx, rec.node(), false)', ['C09.eval.recursion']),
        ('scope_id_not_advanced', 'self.scope_id_seq += 1;', '', ['C09.eval.push_scope.fresh_scope_id']),
        ('decl_always_reevaluated', 'if !ctx.refs.contains_key(&ident) {', 'if true {', ['C09.eval.declaration']),
        ('decl_component_not_registered', 'ctx.refs.insert(ident.clone(), Some(clone_value(&value)));', '', ['C09.eval.declaration']),
        ('decl_recursion_point_named_by_plain_ident', 'None => Expr::Recursion(ident),', 'None => Expr::Recursion(decl.ident()),', ['C09.eval.declaration']),
        ('name_uses_counter_not_innermost_scope', 'let scope_id = match self.scopes.last() { Some((id, _)) => *id, None => 0 };', 'let scope_id = self.scope_id_seq;', ['C09.eval.node_identifier']),
        ('pop_gives_identifier_back', 'self.scopes.pop(); }', 'self.scopes.pop(); if self.scope_id_seq > 0 { self.scope_id_seq -= 1; } }', ['C09.eval.pop_scope']),
        ('literal_status_evaluates_to_number', 'Expr::HttpStatus(*status)', 'Expr::Number(0)', ['C01.site.eval_literal']),
        ('variable_evaluates_the_use_not_the_binder', 'Definition::External(ext) => eval_any(ctx, ext.node(ctx.mods), ann),', 'Definition::External(ext) => eval_any(ctx, variable.node(), ann),', ['C08.eval.variable']),
    ],
}

PROPS = {
    'C01': {
        'units': ['c01', 'c07', 'c03'],
        'kani': [dict(_KANI_STATUS, obligation='C01.status.try_from.total')],
        'level': 'other',
        'scans': [
            {'name': 'P1.tagging_rules', 'kind': 'pinned_text', 'file': 'oal-compiler/src/inference/mod.rs', 'path': [('fn', 'tag')],
             'why': 'the preservation relation `inhabits` (which values a tag admits) was written against these tagging rules'},
            {'name': 'P1.literal_tags', 'kind': 'pinned_text', 'file': 'oal-compiler/src/inference/mod.rs', 'path': [('fn', 'literal_tag')],
             'why': 'the preservation relation `inhabits` was written against these tagging rules'},
            {'name': 'P1.dispatcher', 'kind': 'pinned_text', 'file': 'oal-compiler/src/eval.rs', 'path': [('fn', 'eval_any')],
             'why': 'eval_any is assumed (not verified): node kinds are dispatched to the eval_* functions verified here'},
            {'name': 'P1.constraint_rules', 'kind': 'pinned_text', 'file': 'oal-compiler/src/inference/mod.rs', 'path': [('fn', 'constrain')],
             'why': 'the ASSUMED preservation (a node evaluates to a value its final tag admits) was written against the equations `constrain` generates per node kind; the function is not under contract'},
            {'name': 'P1.substitute', 'kind': 'pinned_text', 'file': 'oal-compiler/src/inference/mod.rs', 'path': [('fn', 'substitute')],
             'why': 'the final tag of a node is the representative written back by `substitute`; the function is not under contract'},
        ],
        'obligation_prefixes': ['C01.', 'C07.unify.head_sound', 'C07.unify.occurs_before_bind', 'C07.unify.nopanic', 'C07.occurs.complete'],
        'technique': 'Verus contracts on the real cast_*, kind predicates, check_*/type_check and eval_* bodies: progress at every cast site relative to a stated (assumed) tag/value preservation relation',
        'level_text': 'Deductive proof (Verus/Z3) of PROGRESS at the cast sites, for all syntax trees and tags: (1) each real cast_* cannot panic under a stated value precondition; '
                      '(2) the real TagWrap predicates / check_* / type_check establish, for every node of a module, the kind facts of its children; '
                      '(3) in the real bodies of eval_terminal/transfer/relation/program/uri_template/content/object/variadic_operation/unary_operation/property/array every cast precondition follows '
                      'from those kind facts, the runtime guards of the code, and the assumed preservation relation at eval_any. '
                      'Preservation (inference soundness), termination of evaluation, eval_application/eval_declaration/eval_variable/eval_binding/eval_recursion/eval_literal, and the emitter panics are not decided: level other.',
        'level_note': 'ASSUMED: preservation `inhabits(value, tag)` at eval_any (stated once, deliberately permissive); every evaluated node belongs to a module accepted by type_check; '
                      'no unresolved type variable at a cast-relevant position (violated by generic functions imported across modules: known finding C01.site.var); the reference table holds schemas only. '
                      'Trusted shims: oal_syntax::parser node accessors as an opaque tree with ghost structure, Annotation getters, EnumMap/IndexMap/Ranges operations, Rc/String helpers (R-local rewrites, logged).',
        'design_ref': 'DESIGN.md section 5, C01',
        'explanation': 'Type soundness = preservation + progress. This check decides progress at the evaluator\'s cast sites on the real code, relative to an explicit preservation assumption. '
                       'On the pinned tree four site obligations failed (headers, transfer domain, resource relation, relation uri; plus concat by the same pattern), each confirmed with the real CLI and repaired by fix commit 070d7db. '
                       'The unresolved-variable family (imported generic function) remains as known finding C01.site.var.',
        'assumptions': ['preservation at eval_any (inhabits)', 'compiled(): every evaluated node was type-checked (glue not verified)', 'resolved(): no residual type variable (known finding when violated)', 'refs_are_schemas (evaluator invariant)'],
        'not_decided': ['preservation (that the inferred tag describes the evaluated value)', 'termination of evaluation / stack depth', 'compose_annotations (YAML annotation parsing); eval_literal is total relative to the lexer invariant "a literal token carries a value of its kind" (unit lex, stated as a precondition), eval_primitive and the `eval` entry point are total; eval_application / eval_variable / eval_binding / eval_declaration / eval_recursion and the eval_any dispatcher are under contract since 12.8-12.12, their panics being excluded relative to stated preconditions (definition slots set by the resolver, the applied identifier has a function tag, the binder\'s frame is on the stack, the node kind is one of the 19 evaluable kinds)', 'emitter unreachable!/expect sites (oal-openapi)', 'loader/ModuleSet unwraps'],
    },
    'C02': {
        'units': ['c02', 'c03', 'c01'],
        'level': 'other',
        'obligation_prefixes': ['C02.'],
        'technique': 'Verus contracts on the real emitter functions Builder::{all_paths, relation_path_item, xfer_params, xfer_request, domain_request, xfer_responses, content_headers, prop_header, method_label} over mirrored openapiv3 field lists and the real spec::{Transfer, Relation, Spec, Content, Object} types',
        'level_text': 'Deductive proof (Verus/Z3) of the structural skeleton of the translation, for every evaluated program: all_paths emits exactly one path item per resource, keyed by the resource\'s URI pattern, in program order '
                      '(precondition: the patterns are pairwise distinct — established by the real eval_program, unit c01: found failing on the tree, repaired by fix 73f530c, DESIGN 12.36); relation_path_item fills, for every declared method, exactly that method\'s slot with an operation whose id, description, tags, parameters, '
                      'request body and responses are built from THAT method\'s transfer, and leaves every other slot empty; xfer_params lists every declared query parameter and every request header once, in order; '
                      'domain_request emits a request body exactly when the request content has a schema, with one media type (declared or default) carrying that schema and the content\'s examples; '
                      'xfer_responses gives every response object the headers and description of the last declared alternative of its status and drops no declared range: every (status, media type) alternative with a schema has its media type, schema and examples in the response of its status (the default response when it has none) — '
                      'on the pinned tree that obligation failed for status-less alternatives (genuine defect, repaired by fix 3b15650). '
                      'What the leaves mean (schemas, responses, request bodies, annotations), i.e. agreement with an independent reference semantics of the language, is not decided: level other.',
        'level_note': 'ASSUMED: openapiv3 struct field lists are mirrored mechanically from the vendored crate (payload types opaque), `#[derive(Default)]` gives None / empty; EnumMap iterates in the declaration order of atom::Method (R-local rewrite of the filter_map chain to `declared_transfers`); '
                      'IndexMap::collect inserts in iteration order (R15); Option<String>/Vec<String> clones are equal; xfer_id, xfer_request, xfer_responses, uri_params, prop_query_param, prop_header_param are uninterpreted functions of their inputs here '
                      '(uri_params, prop_*_param are under contract in unit c03, content_examples in c06). Rules R8f, R15.',
        'design_ref': 'DESIGN.md section 12.14',
        'explanation': 'The plan listed C02 as not applicable (needs a reference semantics). The clause "nothing declared is silently dropped, duplicated, or attached to a different declaration than the one the source names" has a function-level core in the emitter: which slot an operation goes to and which transfer it is built from.',
        'assumptions': ['patterns of the resources are pairwise distinct (otherwise later resources overwrite earlier ones: not checked by the compiler)', 'shims listed in level_note'],
        'not_decided': ['the evaluator side of the translation (that the evaluated spec means what the source says)', 'schemas (value_schema and below), annotations, xfer_id; that a response shared by several alternatives carries only the LAST alternative\'s headers / description is what the code does and what the contract states — whether the earlier ones should be merged is a language-design question', 'uniqueness of URI patterns across resources', 'operationId uniqueness'],
    },
    'C03': {
        'units': ['c03', 'c01'],
        'kani': [dict(_KANI_STATUS, obligation='C03.status.code_domain')],
        'level': 'other',
        'obligation_prefixes': ['C03.', 'SCAFFOLD.C03.'],
        'scans': [
                        _fn_text_scan('A3.path_key_from_same_uri', 'oal-openapi/src/lib.rs', 'impl Builder', 'all_paths', [r'rel\.uri\.pattern\(\)', r'self\.relation_path_item\(rel\)']),
            _fn_text_scan('A3.path_params_from_same_uri', 'oal-openapi/src/lib.rs', 'impl Builder', 'relation_path_item', [r'parameters:\s*self\.uri_params\(&rel\.uri\)']),
            {'name': 'A9.variadic_op_constructed_only_in_eval_variadic_operation', 'kind': 'grep_count', 'token': r'(?<!struct )\bVariadicOp\s*\{',
             'files': ['oal-compiler/src/eval.rs', 'oal-compiler/src/spec.rs', 'oal-compiler/src/stdlib.rs', 'oal-compiler/src/annotation.rs', 'oal-openapi/src/lib.rs'], 'count': 1,
             'why': 'value_schema_pre (no schema operation carries the content operator ::) is established where a spec::VariadicOp is built: the one site, in eval_variadic_operation, is under contract (unit c01)'},
            {'name': 'A4.status_code_constructed_only_in_try_from', 'kind': 'grep_count', 'token': r'HttpStatus::Code\s*\(',
             'files': ['oal-syntax/src/atom.rs', 'oal-syntax/src/lexer.rs', 'oal-syntax/src/parser.rs', 'oal-compiler/src/eval.rs', 'oal-compiler/src/spec.rs',
                       'oal-compiler/src/stdlib.rs', 'oal-compiler/src/annotation.rs', 'oal-openapi/src/lib.rs'], 'count': 2},
        ],
        'technique': 'Verus contracts on the real emitter functions (status keys, Uri::pattern/pattern_with vs uri_params, maybe_inline/reference_schema/all_components) plus a complete Kani proof of the status-code domain',
        'level_text': 'Deductive proof (Verus/Z3, Kani for the code domain) of three emitter invariants, for every evaluated program: response keys are 100-599 or 1XX-5XX; '
                      'a path key is the rendering of its URI path with variables as {name} and the in:path parameters of the same path item are exactly those variables, in order, each required; '
                      'a schema use is a $ref only if all_components emits a component under exactly the referenced name. '
                      'a resource path never names a variable twice (real Uri::duplicate_variable in unit c03, real eval_program in unit c01 — found failing on the pinned tree, repaired by a fix commit), so each {variable} has exactly one path parameter; derived operationIds: the real method_label / uri_segment_label / xfer_id are under contract and distinct operations are shown NOT to get distinct identifiers (machine-checked collision, known finding, DESIGN 12.33); '
                      'YAML round trip, and that every Ref in the evaluated program is in the reference table are not decided: level other.',
        'level_note': 'Trusted: IndexMap shim (ordered association list), format! strings rendered as stated, atom::Ident::{is_reference,untagged} and atom::Text::as_ref as text functions, '
                      'value_schema returns an Item (scan A2), all_paths/relation_path_item use the same rel.uri for key and parameters (scan A3), HttpStatus::Code only built in try_from (scan A4). '
                      'Assumed evaluator invariant: reference expressions name entries of the reference table (refs_closed / uri_refs_known). '
                      'The inline policy spec `inlined` is scaffolding: if maybe_inline\'s policy changes, the check reports UNDECIDED, not a violation.',
        'design_ref': 'DESIGN.md section 5, C03',
        'explanation': 'Decides the $ref/component agreement of the emitter, path-key/path-parameter agreement at segment level, and the response-key domain. '
                       'Not decided: operationId uniqueness (xfer_id is an iterator chain outside Verus; known duplicate get-a-b noted in DESIGN section 6), YAML round-trip (serde_yaml), '
                       'name collisions between untagged() names, evaluator invariant that every Ref has a table entry.',
        'assumptions': ['evaluator invariant refs_closed / uri_refs_known', 'variable names inside a path pairwise distinct (property hypothesis)', 'literals and names are brace-free (lexer patterns)'],
        'not_decided': ['uniqueness of operationIds the program gives explicitly (annotation `operationId`); for DERIVED identifiers the clause is decided and fails: known finding, DESIGN 12.33', 'the YAML text parses back to the same document', 'every Ref(name) in the evaluated spec has an entry in spec.refs', 'collisions between untagged() component names'],
    },
    'C08': {
        'units': ['c08', 'c01'],
        'level': 'other',
        'obligation_prefixes': ['C08.'],
        'scans': [
            {'name': 'P8.stdlib_import', 'kind': 'pinned_text', 'file': 'oal-compiler/src/stdlib.rs', 'path': [('fn', 'import')],
             'why': 'stdlib::import is under an ASSUMED contract (declares the built-ins, unqualified, into the innermost scope); Verus rejects its array-of-Rc<dyn> body'},
            {'name': 'P8.core_define', 'kind': 'pinned_text', 'file': 'oal-compiler/src/tree.rs', 'path': [('impl', 'impl Core'), ('fn', 'define')],
             'why': 'rule R-ghost models `core_mut().define(d)` as "the definition slot of the node becomes d"'},
        ],
        'technique': 'Verus contracts on the real scope stack (env.rs), the real resolver walk (resolve.rs) and the real evaluator scope functions (eval.rs): every use is set to the innermost open binder of its name, for all syntax trees; '
                     'the evaluator keeps a stack discipline under which a callee frame holds exactly the callee\'s parameters',
        'level_text': 'Deductive proof (Verus/Z3), for every module set and every syntax tree. STATIC half, proved on the real code: '
                      '(1) Env::{new,declare,lookup,open,close} against an abstract stack of maps (lookup is innermost-first; declare touches only the innermost scope and reports a previous definition; open/close push/pop one scope); '
                      '(2) define_variable, declare_import, declare_variable, open/close_declaration, open/close_recursion each against that view; '
                      '(3) the whole body of resolve(): whenever it returns Ok, no module declaration reuses an unqualified name in scope, every use has a binder, and the sequence of definition-slot writes equals '
                      'the one of a lexical resolver: at each Variable node, the innermost-first lookup of (identifier, qualifier) in [built-ins < imports under their qualifier < all declarations of the module] followed by the scopes of the '
                      'declarations/rec expressions that are open at that point of the walk; '
                      '(4) property lemmas: when the event sequence is the pre/post-order walk of a tree, that stack IS the tree-defined lexical environment (environment of a child = environment of its parent extended by the parent\'s binders; siblings share it), '
                      'and in the module scope a declared name denotes its declaration wherever it stands in the file, any other name keeps its imported / built-in meaning. '
                      'DYNAMIC half, function level only: Context::{push_scope,pop_scope,lookup_binding} against a stack of maps (lookup innermost-first), eval_binding returns the innermost frame\'s value, eval_variable evaluates the node chosen by the resolver, '
                      'eval_application evaluates every argument in the caller\'s stack and the body under exactly one more frame holding exactly the callee\'s parameters, eval_recursion likewise for the rec binder, and each leaves the stack balanced. '
                      'That the dynamic stack therefore agrees with the static binding for ALL call shapes is a whole-evaluation invariant across ~25 mutually recursive eval_* functions and is not decided: level other.',
        'level_note': 'ASSUMED: stdlib::import declares the built-ins into the innermost scope (pinned text); generational_indextree `traverse` yields the Start/End events of the subtree (uninterpreted sequence; '
                      'the proof of resolve() does not need well-bracketing, only the tree reading of lemma (4) does and states it as a hypothesis); the derived Hash/Eq of Entry and Ident obey vstd\'s key model; Ident equality is text equality; '
                      'External::new(node) identifies the node by (locator, index); eval_any (dispatcher, pinned text) leaves the scope stack balanced on Ok and satisfies the C01 preservation relation; preservation at the applied variable (identity shim `preserved_at`); '
                      'the scope-id counter does not overflow u64 (one `assume`, listed). Rule R-ghost: the RefCell write Core.define is a push on a ghost log threaded as an erased parameter (R10). '
                      'Rules R9 (iterator first-element pipeline -> index loop), R11 (map+collect::<Result<Vec<_>>>()? -> loop), R12 (for over zip -> index loop) are std-semantics rewrites, logged. '
                      'Observed and recorded, not a violation of a stated clause: a module declaration that reuses the name of an unqualified import or of a built-in is rejected ("identifier already exists") instead of shadowing it.',
        'design_ref': 'DESIGN.md section 12.8',
        'explanation': 'The property was first listed not applicable; rules R9-R12, `subst-re` and a ghost syntax-tree shim brought env.rs, all of resolve.rs and the scope-handling functions of eval.rs within Verus\' reach. '
                       'The resolver half is proved for all programs; the evaluator half is proved function by function (stack discipline), and the global agreement invariant is named under not_decided.',
        'assumptions': ['stdlib::import contract (pinned text)', 'traverse() event sequence is the walk of the tree (trusted dependency)', 'loader hands resolve a module set containing every joinable import (C10)', 'Entry / Ident key model',
                        'parser node accessors as an opaque tree with ghost structure', 'eval_any leaves the scope stack balanced on Ok (assumed frame, pinned text)', 'preservation (C01) at eval_any and at the applied variable',
                        'eval_binding is called with the binder\'s frame on the stack (precondition, not discharged at call sites: eval_any is assumed)', 'scope-id counter below 2^64'],
        'not_decided': ['that the evaluator\'s dynamic scope stack agrees with the static binding for all call shapes (whole-evaluation invariant; function-level building blocks are proved)',
                        'arity: that every call supplies at least as many arguments as the callee has parameters (inference), so the callee frame holds ALL parameters',
                        'eval_declaration (reference / recursion bookkeeping), eval_any dispatcher', 'which of two same-named declarations from two unqualified imports wins is fixed (the later import) but not demanded by the statement'],
    },
    'C09': {
        'units': ['c01', 'c08'],
        'level': 'other',
        'obligation_prefixes': ['C09.', 'C01.tagpred.is_schema', 'C01.tagpred.is_uri'],
        'scans': [
            {'name': 'P9.builder_insert', 'kind': 'pinned_text', 'file': 'oal-compiler/src/resolve.rs', 'path': [('impl', 'impl Builder'), ('fn', 'insert')],
             'why': 'Builder::insert (hash_map Entry API) is under an ASSUMED contract: the node of a definition is found or appended, nothing else changes'},
            {'name': 'P9.compile_calls_cycles_check', 'kind': 'pinned_text', 'file': 'oal-compiler/src/compile.rs', 'path': [('fn', 'compile')],
             'why': 'the glue that runs cycles_check on the graph returned by resolve, after inference and before evaluation, is not under contract'},
        ],
        'technique': 'Verus contract on the real typecheck::cycles_check over a petgraph shim (finite edge map, kosaraju_scc as a partition into classes of mutual reachability); graph-theoretic reading lemmas; '
                     'function contracts on the real eval_recursion / Context::push_scope for the naming of components',
        'level_text': 'Deductive proof (Verus/Z3), for every definition graph: the real cycles_check (1) terminates — every round that asks for another round has deleted at least one edge (decreases clause on the edge count); '
                      '(2) marks as recursive only referential definitions (schema and not URI tags); (3) on Ok, the graph obtained by deleting only edges INTO marked definitions has no cycle, hence (lemma) every cycle of the original definition graph '
                      'enters a marked referential definition: every recursion can be cut at a schema; (4) on Err, some such subgraph has a class of mutually recursive definitions (or a self loop) none of whose members is referential: a cycle with no schema to cut at — '
                      'so a program whose definition graph has an uncuttable cycle cannot be accepted (contrapositive of (3) plus termination). '
                      'Naming of components, function level: eval_recursion returns a reference to a component named by a hash of (the rec node, the identifier of the scope it is instantiated in), binds the rec variable to exactly that name inside the body and registers the evaluated body under it; '
                      'push_scope gives every scope a fresh identifier (strictly increasing counter). '
                      'The graph cycles_check runs on is complete (unit c08): resolve returns a dependency graph with exactly one edge (declaration, binder) for every use, inside that declaration, that denotes a node of some module '
                      '(Builder::{open,close,connect,graph} and the walk of resolve against `lexical_deps`). '
                      'Not decided: eval_declaration (references / recursive declarations evaluated once), that the emitter turns references into $ref + components (see C03 for the closed-components clause), termination of evaluation, and collision-freeness of the hash: level other.',
        'level_note': 'ASSUMED: petgraph StableDiGraph operations as a finite map edge-id -> (source, target) with stable ids (find_edge, node_weight, edges_directed(Incoming) = all edges into the node, remove_edge); '
                      'kosaraju_scc returns a partition of the nodes into classes of mutual reachability (scc_spec, opaque, used through four accessor lemmas); rule R-ghost for the RefCell write `core_mut().is_recursive = true`; '
                      'rules R6 (mut parameter), R13 (`continue` elimination), subst-re rewrites of `first()`, `drain(..)`; SHA-256 is treated as an uninterpreted injective-looking function only in the sense that equal inputs give equal names (distinctness of names for distinct inputs is NOT claimed). '
                      'The tags read by cycles_check are the final tags (inference ran before): glue pinned, not verified.',
        'design_ref': 'DESIGN.md section 12.9',
        'explanation': 'Listed not applicable in the plan; rules R13/R6/R-ghost and a graph shim brought cycles_check within reach. The accumulation of `inbounds` across components makes the rejection argument subtle '
                       '(an uncuttable class may survive a round in which another class was cut); the loop invariant "inbounds empty ==> every class seen so far is trivial" carries it.',
        'assumptions': ['petgraph operations and kosaraju_scc contracts (trusted dependency)', 'tags are final when cycles_check runs (glue pinned)', 'hash naming: equal (node, scope id) give equal names; distinct ones are assumed, not proved, to give distinct names'],
        'not_decided': ['eval_declaration: a reference / recursive declaration is evaluated once and its recursion point becomes Expr::Recursion', 'emitter: Reference -> $ref + component (closedness is C03)', 'termination and finiteness of evaluation',
                        'two instantiations get different component names (needs collision-freeness of SHA-256 over (scope id, node))', 'that the shim of the graph in unit c08 (weights, edge pairs) and the one in unit c01 (node map, edge map) describe the same petgraph object (composition by reading)'],
    },
    'C17': {
        'units': ['c17'],
        'level': 'other',
        'obligation_prefixes': ['C17.'],
        'scans': [
            {'name': 'P17.syntax_at', 'kind': 'pinned_text', 'file': 'oal-client/src/lsp/handlers.rs', 'path': [('fn', 'syntax_at')],
             'why': 'syntax_at::<N> (generic iterator chain) is under an ASSUMED contract: first node of sort N in pre-order whose span contains the index'},
            {'name': 'P17.find_folders', 'kind': 'pinned_text', 'file': 'oal-client/src/lsp/handlers.rs', 'path': [('fn', 'find_folders')],
             'why': 'find_folders is under an ASSUMED contract: the folders whose module set contains the locator'},
        ],
        'technique': 'Verus contracts on the real LSP handlers node_location, find_definition, find_references, go_to_definition, references over a ghost syntax-tree shim whose definition slots are the ones written by the resolver (C08)',
        'level_text': 'Deductive proof (Verus/Z3), for all folders, trees, cursor positions: find_definition returns the declaration whose name the cursor is on, or the definition slot of the variable it is on, else nothing; '
                      'find_references returns exactly the identifier locations of the Variable nodes, over all modules of the folder in order, whose definition slot equals the given definition (lemmas: every reported use is bound to it, every bound use is reported); '
                      'go_to_definition returns a location only for a variable under the cursor whose slot is an external definition, and it is the location of that binder node (in whichever module it lives), otherwise the empty list; '
                      'references returns the empty list when the cursor designates nothing. With unit c08 (resolve Ok ==> the slot of every use is its innermost enclosing binder) this gives the mirror property for the static binding relation. '
                      'Not decided: the composition with C08 is by reading, not by a machine-checked link between the two units (different shims of the same tree); rename/prepare_rename; that the folder was compiled from the current texts (C15); positions are converted by the functions proved in C16 (assumed here): level other.',
        'level_note': 'ASSUMED: syntax_at and find_folders (pinned texts), parser node accessors as an opaque tree with ghost structure (spans, ancestors, pre-order descendants), `impl PartialEq for Definition` is structural, '
                      'Workspace::read_file returns the current text and changes no text, unicode conversions as uninterpreted functions of (text, position) (proved in unit c16), every node has a span (unwrap sites), '
                      'every Variable of a compiled folder has its slot set (resolve Ok; otherwise find_references would panic on unwrap — precondition). Rule R14 (for over filter_map).',
        'design_ref': 'DESIGN.md section 12.11',
        'explanation': 'Listed not applicable in the plan because it needs C08; once the resolver half of C08 was proved the handlers became ordinary function contracts over the same definition slots.',
        'assumptions': ['definition slots are those written by resolve (unit c08)', 'syntax_at / find_folders contracts (pinned)', 'the folder\'s module set was compiled from the texts the workspace currently holds'],
        'not_decided': ['machine-checked composition with C08 (two units, two shims of the tree)', 'rename / prepare_rename', 'references when several folders contain the document: the per-folder results are concatenated (only the empty case is specified)', 'internal (built-in) definitions: go-to-definition answers the empty list'],
    },
    'C18': {
        'units': ['c17'],
        'level': 'other',
        'obligation_prefixes': ['C18.'],
        'scans': [
            {'name': 'P17.syntax_at', 'kind': 'pinned_text', 'file': 'oal-client/src/lsp/handlers.rs', 'path': [('fn', 'syntax_at')],
             'why': 'syntax_at::<N> (generic iterator chain) is under an ASSUMED contract: first node of sort N in pre-order whose span contains the index'},
            {'name': 'P17.find_folders', 'kind': 'pinned_text', 'file': 'oal-client/src/lsp/handlers.rs', 'path': [('fn', 'find_folders')],
             'why': 'find_folders is under an ASSUMED contract: the folders whose module set contains the locator'},
        ],
        'technique': 'Verus contracts on the real LSP handlers rename, prepare_rename, rename_variable, rename_qualifier, find_qualifier (unit c17, over the definition slots written by the resolver): the request is always answered, and the edits are the binder\'s name plus every use bound to it',
        'level_text': 'Deductive proof (Verus/Z3), for all folders, trees, cursor positions and new names: the real rename_variable returns for every definition the cursor can designate — a declaration, a function parameter, a recursion variable, a built-in — '
                      '(no unwrap can fail: found failing on the pinned tree for parameters and recursion variables, which terminated the server; repaired by a fix commit, see known_findings.json), '
                      'and its edits are exactly: one on the binder\'s own name (the declaration\'s identifier, or the first child of a binding), then one on the identifier of every Variable node of the folder whose definition slot is that binder, in module and pre-order, nothing else; '
                      'a built-in gives no edit; the real rename handler always answers Ok(Some(edit set)) or an error value. '
                      'That the edited sources are still accepted and compile to the same document (alpha-equivalence of two whole programs), non-overlap of the edits, rename_qualifier and prepare_rename are not decided: level other.',
        'level_note': 'ASSUMED: as for C17 (syntax_at, find_folders pinned; tree accessors as an opaque tree with ghost structure; every node has a span; every Variable of a compiled folder has its slot set), plus: '
                      '`HashMap<Url, Vec<TextEdit>>` as a trusted shim (EditMap: per document the edits in order), the Entry-API match rewritten to its push_edit (R-local), `vec![x]` -> vec_one, `new_name.into()` -> str_to_string, '
                      '`impl PartialEq for Identifier` is equality of the identifier texts (parser.rs), a node\'s span lies in the module whose tree holds it, the first child of a Binding node is its identifier (oal-syntax parser.rs Binding::ident).',
        'design_ref': 'DESIGN.md section 12.30',
        'explanation': 'Listed not applicable in the plan (alpha-equivalence of two programs). The clause "never crashes the server" and the shape of the edit set are single-call contracts on the handlers, within reach once C17 had the tree shim.',
        'assumptions': ['definition slots are those written by resolve (unit c08)', 'syntax_at / find_folders contracts (pinned)', 'spans are local to the module of their tree'],
        'not_decided': ['the edited sources are accepted and compile to the same document (two-program property)', 'edits do not overlap (distinct nodes have disjoint spans: parser invariant, out of reach)', 'several folders containing the document: edits of the later folder are appended'],
    },
    'C12': {
        'units': ['c12'],
        'level': 'other',
        'obligation_prefixes': ['C12.'],
        'scans': [
            {'name': 'A10.memoize_called_at_two_sites', 'kind': 'grep_count', 'token': r'\bmemoize\s*\(', 'files': ['oal-syntax/src/parser.rs', 'oal-syntax/src/lib.rs', 'oal-syntax/src/lexer.rs', 'oal-syntax/src/atom.rs'], 'count': 2,
             'why': 'memoize requires tag_of(p) == t, i.e. a tag names ONE production; the call sites are not under contract (closure combinators), so the two sites are counted and each is pinned'},
            {'name': 'P12.parse_term_kind', 'kind': 'pinned_text', 'file': 'oal-syntax/src/parser.rs', 'path': [('fn', 'parse_term_kind')],
             'why': 'the only memoize call with ParserTag::Term passes parse_term: precondition tag_of(p) == t of memoize (unit c12)'},
            {'name': 'P12.parse_expression', 'kind': 'pinned_text', 'file': 'oal-syntax/src/parser.rs', 'path': [('fn', 'parse_expression')],
             'why': 'the only memoize call with ParserTag::Expression passes the recursion-or-relation closure: precondition tag_of(p) == t of memoize (unit c12)'},
            {'name': 'A11.cursor_key_is_derived_structural', 'kind': 'grep_count', 'files': ['oal-model/src/lexicon.rs'], 'count': 1,
             'token': r'#\[derive\((?=[^)]*\bPartialEq\b)(?=[^)]*\bEq\b)(?=[^)]*\bHash\b)[^)]*\)\]\s*pub struct Cursor\(Option<ItemToken>\);',
             'why': 'the memo-table shim models HashMap keys by structural equality: Cursor derives PartialEq, Eq and Hash over its one field (a hand-written impl that ignores part of the cursor would merge table entries)'},
            {'name': 'A12.parser_tag_key_is_derived_structural', 'kind': 'grep_count', 'files': ['oal-syntax/src/parser.rs'], 'count': 1,
             'token': r'#\[derive\((?=[^)]*\bPartialEq\b)(?=[^)]*\bEq\b)(?=[^)]*\bHash\b)[^)]*\)\]\s*pub enum ParserTag\b',
             'why': 'same for the production tag'},
            {'name': 'P12.parser_tags', 'kind': 'pinned_text', 'file': 'oal-syntax/src/parser.rs', 'path': [('enum', 'ParserTag')],
             'why': 'two tags, one per memoized production'},
        ],
        'technique': 'Verus contracts on the real memo-table functions of the parser context, Context::{cache, lookup, without_cache}, and on the real memoize relative to an assumed contract of the productions it calls (unit c12)',
        'level_text': 'Deductive proof (Verus/Z3) of the function-level half of "memoisation is invisible" only: the memo table is a faithful map — `cache` stores a result under exactly (cursor, production tag) and changes nothing else, '
                      '`lookup` returns exactly what is stored under that key and never changes the table, and with the bypass switch (`without_cache`) nothing is stored and every lookup misses. '
                      'That a production returns the same result and leaves the same tree whether or not its result was taken from the table (which needs the productions to be functions of (context, cursor)), '
                      'and the linear bound on parser work, are not decided for the productions themselves (closure combinators). '
                      'The real `memoize` is under contract relative to an ASSUMED contract of the production it calls through its function pointer (an opaque handle; the call is a trusted shim): '
                      'given a coherent table (every entry is what its production answers at its cursor) and the tag of the production, memoize returns what the production answers at the cursor — hit or miss, cache on or bypassed —, '
                      'keeps the table coherent, forgets no entry, and with the cache on leaves the answer in the table (so a production runs at most once per (cursor, tag)). '
                      'That every production satisfies the assumed contract (is a function of (tag, cursor), which is where the tree side effects live) is not decided: level other.',
        'level_note': 'ASSUMED: `HashMap<(Cursor, Tag), ParserResult>` as a trusted map shim (insert / get+cloned), `ParserResult` is the real alias `Result<(Cursor, ParserMatch), ParserError>` over opaque ParserMatch / ParserError, cloned to an equal value (assume_specification on Result::clone), the hit counter (a Cell) as an unspecified shim that does not overflow. Rule R5 (`mut self`).',
        'design_ref': 'DESIGN.md section 12.50',
        'explanation': 'Listed not applicable in the plan (closure combinators, Kani did not finish). The three functions that read and write the memo table are plain functions and carry the table-level half of the property.',
        'assumptions': ['the HashMap shim', 'ParserResult::clone yields an equal value', 'every production called through the function pointer satisfies call_production\'s contract (answers prod_at(tag, cursor), keeps the table coherent, forgets nothing)', 'the tag passed to memoize is the tag of the production passed with it (precondition tag_of(p) == t): not a contract — the two call sites in oal-syntax/src/parser.rs are counted and pinned (scans A10, P12.*), an edit there makes the check UNDECIDED'],
        'not_decided': ['parsing with the table gives the tree and errors that parsing without it gives (needs the productions to satisfy the assumed contract)', 'the amount of parser work grows at most linearly with the number of tokens'],
    },
    'C10': {
        'units': ['c10', 'c10j'],
        'level': 'proof',
        'obligation_prefixes': ['C10.'],
        'technique': 'Verus contract on the real module::load with a ghost event log injected into the real Loader trait; load-once / compile-after-imports / acyclicity as lemmas over the log',
        'level_text': 'Deductive proof (Verus/Z3) for every import graph and every loader satisfying the ghost-log contract: whenever the real load() returns Ok, '
                      'there is a duplicate-free node list starting at the base, every node wired to all its import targets (edge import -> importer), a topological order of that graph, '
                      'and the loader log is exactly: one Load+Parse per node in discovery order, then one Compile per node in that order. Load-once, parse-once, compile-once, '
                      'compile-after-imports, no self import / acyclicity (so a cyclic graph can only give Err) and validity of every imported locator are lemmas over that contract. '
                      'All unwrap/expect sites are proved unreachable, and the work-list loop terminates (lexicographic measure: undiscovered locators, queue length).',
        'level_note': 'Trusted: petgraph Graph::{add_node,add_edge,node_weight} and toposort (Ok ==> topological order; Err ==> node id in range), HashMap via vstd (ModuleSet is the real struct with its real methods new/base/main/insert/len/is_empty/get since 12.20; `HashMap::from([(k, v)])` is a one-entry shim), '
                      'Locator::join as a function (join_id), Program::imports returns the import strings of the tree, Loader implementations satisfy the ghost-log contract. '
                      'Termination of the work list is proved under the stated assumption that the loader can declare only finitely many locators valid (ghost `universe`). Which error is reported first and the order among independent modules are not decided.',
        'design_ref': 'DESIGN.md section 5, C10',
        'explanation': 'Whole real body of load() verified (4 loops, 2 closures, 5 unwrap/expect sites) against an Ok-path contract over a ghost event log; the property clauses are lemmas over that contract.',
        'assumptions': ['dependency contracts listed in trusted_base', 'termination: the loader\'s universe of valid locators is finite and contains the base (ghost assumption; false for a loader that invents a fresh valid locator forever)',
                        'url normalisation inside Locator::join is trusted (two spellings of one file are one module exactly when join maps them to the same locator)'],
        'not_decided': ['which error kind is reported when several apply', 'Err-path: that the error names the offending import (E is an opaque From<Error>)'],
    },
    'C04': {
        'units': ['lex', 'c07', 'c16', 'c08', 'c01', 'c13l'],
        'kani': [dict(_KANI_STATUS, obligation='C04.status.try_from.total')] + [dict(h, obligation=h['obligation'].replace('C11.', 'C04.')) for h in _KANI_CONV],
        'level': 'other',
        'obligation_prefixes': ['C04.', 'C07.occurs.terminates', 'C07.occurs.nopanic', 'C07.uf.terminates', 'C07.uf.nopanic', 'C07.unify.nopanic', 'C07.unify.keeps_forest', 'C07.unify.occurs_before_bind',
                                'C07.equation.', 'C07.inference_set.', 'C16.p2u.no_overflow', 'C16.u2p.no_overflow',
                                'C08.env.', 'C08.resolve.', 'C08.entry.', 'C08.external.', 'C09.cycles_check',
                                'C16.p2u.body', 'C16.u2p.body', 'C16.range.body'],
        'technique': 'Verus totality contracts (no panic / overflow / out-of-bounds slice, termination) on the real lexer conversions, tokenize, occurs, union-find and position conversions; complete Kani proof for HttpStatus::try_from',
        'level_text': 'Function-level totality, for all inputs, of every front-end function within reach of the verifiers: tokenize and the four token-value conversions '
                      '(against lexical shapes derived mechanically from the real #[regex]/#[token] patterns), occurs, UnionFind, the LSP position conversions (Verus), '
                      'HttpStatus::try_from over the full u64 domain incl. its unsafe block (Kani, complete); since the C08/C09 work also the name resolver (env.rs, all of resolve.rs: no panic when the loader hands it a module set '
                      'containing every joinable import, terminates) and typecheck::cycles_check (no panic, terminates). The parser, reduce/substitute, the evaluator and the server loops '
                      'are not within reach, so the property as a whole is not decided: level other.',
        'level_note': 'Trusted: the LOGOS contract (ranges tile the input on char boundaries; an Ok(kind) slice matches kind\'s pattern) with pattern consequences computed by tools/logos_shape.py; '
                      'std str slicing/len/parse::<u64>/chars().next() contracts (R-local rewrites to shim functions, logged); TokenList/interner shim. '
                      'Not decided: parser combinators (closures capturing &mut Context), memoize, resolve, unify/reduce/substitute, eval, CLI/LSP loops, stack depth.',
        'design_ref': 'DESIGN.md section 5, C04',
        'explanation': 'Decides absence of panics/overflow/non-termination for: lexer.rs tokenize + parse_number/parse_http_status/parse_quoted_string/parse_prefixed_string, '
                       'atom.rs HttpStatus::try_from (Kani complete), unify.rs occurs, union.rs UnionFind::{insert,reduce,reduce_mut,union,find}, unicode.rs conversions. '
                       'These are the functions of the statement\'s "number size or Unicode content" clause; the token-order clause (parser) is out of reach.',
        'assumptions': ['LOGOS contract', 'std string API contracts as stated in contracts/lex.vrs', 'texts below 2^30 characters for the position conversions'],
        'not_decided': ['tokenizer+parser on arbitrary token sequences (parser out of reach)', 'single-file compile entry point, CLI, LSP load/evaluate cycle', 'stack depth under nesting <= 200', 'termination of union::reduce/substitute'],
    },
    'C11': {
        'units': ['lex', 'tok', 'c11t'],
        'kani': _KANI_CONV,
        'level': 'other',
        'obligation_prefixes': ['C11.'],
        'technique': 'Verus contract on the real tokenize: tokens and error spans are exactly the lexer\'s ranges in order (tiling), each token carries the value its source slice denotes; ordering/tiling/in-text lemmas',
        'level_text': 'Deductive proof (Verus/Z3) of the lexical layer only, for every input text: tokenize keeps every lexer range (as a token or as an error span), in order; '
                      'tokens therefore tile the text without overlap on character boundaries, and each token\'s value is the source slice of its span (minus the delimiter the '
                      'conversion removes). The tree-leaf / node-span clauses need the parser and NodeRef recursion (out of reach): level other.',
        'level_note': 'Trusted: LOGOS contract, TokenList/interner shim (push appends, resolve(register(s)) == s, symbols stable), std string API contracts. '
                      'generational_token_list as a list with stable distinct item tokens (unit tok); rule R8c/R8d (Option::and_then / map_or rewritten to match by their std definitions). '
                      'Not decided: leaves of the syntax tree, node span = hull of leaves, spans of compiler errors.',
        'design_ref': 'DESIGN.md section 5, C11',
        'explanation': 'Decides clauses "tokens tile the source text in order without overlap" and "each token\'s text is the source slice of its span", plus "lexical error spans lie within the text on character boundaries". '
                       'Unit tok adds the real TokenList (head/advance/kind/token_span/push/end/len) and Context::span: the span of a valid cursor is that token\'s range, the end-of-input span is exactly one position starting where the last token ends. '
                       'Does not decide the clauses about tree leaves and node spans.',
        'assumptions': ['LOGOS contract (logos crate behaves as documented)', 'generational_token_list keeps insertion order'],
        'not_decided': ['leaves of the tree are exactly the non-trivia tokens of the parsed prefix', 'a node\'s span is the hull of its leaves', 'spans attached to compiler diagnostics and definitions'],
    },
    'C06': {
        'units': ['c06'],
        'level': 'other',
        'obligation_prefixes': ['C06.'],
        'scans': [
            {'name': 'A6.no_hash_collections_on_the_output_path', 'kind': 'grep_count', 'token': r'\bHash(Map|Set)\b',
             'files': ['oal-openapi/src/lib.rs', 'oal-compiler/src/spec.rs', 'oal-compiler/src/annotation.rs'], 'count': 0,
             'why': 'after fix aeb24a7 no hash-ordered collection is left in the evaluated-program types, the annotation getters and the emitter; the evaluator keeps HashMap for its scopes, which are lookup-only (proved: unit c01, lookup_binding / eval_binding)'},
        ],
        'technique': 'Verus contract on the real Builder::content_examples over the real spec::{Content, Schema} field types: the emitted example map is, entry by entry and in order, a function of the evaluated content; '
                     'a token scan guards the absence of hash-ordered collections on the rest of the output path',
        'level_text': 'Deductive proof (Verus/Z3) for every content: the real content_examples emits the examples of the content (else of its schema) in the order in which the map hands them out, and that order is a function of the map VALUE '
                      '(the entry sequence of an insertion-ordered map = the order of the source annotation). With std::collections::HashMap in the field type (the pinned tree) the same obligation fails — the iteration order of a hash map is no function of its content — '
                      'which is the genuine defect repaired by fix commit (see known_findings.json). Byte-identical output of the whole pipeline (serde_yaml, file order of modules, every other emitter function) is not decided: level other.',
        'level_note': 'ASSUMED: indexmap::IndexMap iterates in insertion order and `collect()` into it inserts in iteration order (shim), keys of an IndexMap are distinct, String::clone yields an equal string. '
                      'Rules R8f (Option::or_else), R15 (iter().map().collect() -> loop), R8c. Token scan A6: no HashMap/HashSet in oal-openapi/src/lib.rs, spec.rs, annotation.rs.',
        'design_ref': 'DESIGN.md section 12.13',
        'explanation': 'The plan called C06 a data-flow discipline. For the one place where hash order reached the output the discipline IS a function contract: "the result is a function of the argument\'s ordered view", which has no proof when the argument is a HashMap.',
        'assumptions': ['IndexMap shim (insertion order)', 'serde_yaml serialises an IndexMap in its iteration order', 'A6 token scan'],
        'not_decided': ['determinism of the other emitter functions beyond their existing `==`-contracts (C03, C14)', 'serde_yaml output', 'module iteration order in ModuleSet (HashMap; used by the language server only)', 'two runs on different machines / locales'],
    },
    'C07': {
        'units': ['c07'],
        'level': 'other',
        'obligation_prefixes': ['C07.'],
        'technique': 'Verus contracts on the real occurs (completeness against sub-term containment, termination), UnionFind (ranked-forest invariant, termination, no panic, representative laws) and unify / InferenceSet::unify (forest invariant kept, occurs check before every binding, head soundness)',
        'level_text': 'Deductive proof (Verus/Z3), for all tags and all union-find states, of the function-level clauses only: occurs(a,b) is exactly '
                      'sub-term containment through every constructor (so self-containing types cannot be bound), both path walks terminate, the forest '
                      'invariant is preserved by insert/reduce_mut/union, no indexing or assert can panic. unify/constrain/substitute are outside Verus '
                      '(closures capturing &mut), so order/naming independence and agreement with a reference unifier are not decided: level other.',
        'level_note': 'Trusted: indexmap::IndexSet insert_full/get_full/get_index as an insertion-ordered duplicate-free sequence; derived PartialEq of Tag is structural; '
                      'rule R4 (iter().any inlined to its short-circuit loop), R1 (break v -> return v at tail loop), R8 (Result::and_then / zip+try_for_each rewritten to match / index loop by their std definitions), '
                      'union::reduce (free function) as an uninterpreted function of (structure, tag). unify\'s own termination is NOT proved (exec_allows_no_decreases_clause). '
                      'Not decided: order / renaming independence, coincidence with solvability (full soundness `Ok ==> both sides reduce to the same tag`).',
        'design_ref': 'DESIGN.md section 5, C07',
        'explanation': 'Decides: (1) occurs is complete w.r.t. containment through Func bindings, Func range and Property (postcondition taken from the property, not the code); '
                       '(2) UnionFind: ranked-forest invariant preserved, reduce/reduce_mut terminate and return THE representative of the class, path compression keeps every class, '
                       'union merges exactly the left class into the right one (right representative wins) and leaves all other classes alone, find returns the class representative and the reduced flag; no panic. '
                       '(3) unify (after rule R8) / TypeEquation::unify / InferenceSet::unify: the forest invariant survives the whole unification (no panic in any union-find operation), a variable is bound only after an occurs check on the very terms bound, '
                       'and Ok implies the two reduced sides have compatible heads (same constructor and arity, or a variable). '
                       'Does not decide reduce (free fn) / constrain / substitute, nor full soundness of unification or its termination.',
        'assumptions': ['IndexSet behaves as documented (conformance not proved)', 'Tag equality is structural'],
        'not_decided': ['verdict independent of declaration order and identifier spelling', 'verdict coincides with solvability of the kind constraints', 'termination of union::reduce (free function) and substitute'],
    },
    'C15': {
        'units': ['c15', 'c16'],
        'kani': [
            {'package': 'vk-lsp', 'harness': 'open_full_change_close', 'obligation': 'C15.kani.open_full_change_close', 'bounded': True,
             'bound': 'two documents, one concrete history open/open/full-text change/close/change-after-close on the extracted real Workspace methods', 'tier': 'thorough',
             'timeout': 900, 'pre_extract': ('contracts/c15_kani.krs', 'kani/lsp/src/gen.rs'), 'fallback_for': ['c15']},
        ],
        'level': 'other',
        'obligation_prefixes': ['C15.', 'C16.p2u.'],
        'technique': 'Verus contracts on the real Workspace::{open,close,change} over an abstract document-store view, folded over arbitrary event histories; modular on the C16 contract of position_to_utf8',
        'level_text': 'Deductive proof (Verus/Z3) of the document-store part of the property only: for every history of didOpen/didChange/didClose '
                      'with protocol-conformant ranges, the server\'s text of each open document equals the client\'s (the real Workspace methods '
                      'are verified and folded over an arbitrary event sequence). Stale diagnostics are cleared: the real Workspace::diagnostics returns an entry for every document the store holds (an empty list unless an error is logged for it), consumes the error log, '
                      'and changes no text of a held document (DESIGN 12.32). The rest of the statement (that refresh / main_loop publish that map before each answer, request answers, '
                      'process liveness outside change) is not decided, hence level other.',
        'level_note': 'Trusted: std String::replace_range (byte splice; panics unless start<=end on char boundaries), HashMap::get_mut frame spec, '
                      'Locator::from injective with a lawful Hash/Eq, position_to_utf8 by its C16 contract (proved in unit c16 and re-checked here). '
                      'Assumed: ranges are protocol-conformant (start <= end, columns not inside a surrogate pair), documents < 2^30 chars. '
                      'Not decided: oal-lsp.rs main_loop / dispatcher, is_stale/refresh discipline, read_file cache, handlers.',
        'design_ref': 'DESIGN.md section 5, C15',
        'explanation': 'Decides only the clause "the server\'s copy of each open document never drifts from the client\'s" (and that change() cannot panic on conformant input): '
                       'open/close/change are verified against a client model defined with the LSP reference semantics of positions, then folded over every event history by a verified driver. '
                       'Published diagnostics, request answers and liveness of the server loop are outside the reach of contracts on this code (crossbeam select!, lsp_server I/O).',
        'assumptions': [
            'protocol-conformant change ranges (start <= end lexicographically, columns not strictly inside a surrogate pair), evaluated against the client\'s text at the time of each change',
            'documents shorter than 2^30 characters at every point of the history',
            'the dispatcher calls Workspace::open/close/change once per notification, in arrival order (oal-lsp.rs, not verified)',
        ],
        'not_decided': ['freshness of published diagnostics', 'answers to definition/references/rename requests', 'is_stale/refresh discipline of main_loop', 'disk cache in Workspace::read_file', 'process liveness outside Workspace::change'],
    },
    'C16': {
        'units': ['c16'],
        'kani': [
            {'package': 'vk-unicode', 'harness': 'roundtrip', 'obligation': 'C16.kani.roundtrip', 'bounded': True, 'bound': 'all UTF-8 texts <= 4 bytes, all boundary offsets', 'tier': 'thorough', 'decode': 'unicode_text_idx', 'timeout': 1200},
            {'package': 'vk-unicode', 'harness': 'p2u_matches_reference', 'obligation': 'C16.kani.p2u_reference', 'bounded': True, 'bound': 'texts <= 4 bytes, line <= 5, character <= 9', 'tier': 'thorough', 'decode': 'unicode_text_pos', 'timeout': 1200},
            {'package': 'vk-unicode', 'harness': 'char_index_matches_reference', 'obligation': 'C16.kani.char_index', 'bounded': True, 'bound': 'texts <= 4 bytes, any offsets (oal-model/src/span.rs utf8_to_char_index, CharSpan::from)', 'tier': 'thorough', 'decode': 'unicode_text_idx', 'timeout': 1200},
            {'package': 'vk-unicode', 'harness': 'u2p_matches_reference', 'obligation': 'C16.kani.u2p_reference', 'bounded': True, 'bound': 'texts <= 4 bytes, offsets <= 6', 'tier': 'thorough', 'decode': 'unicode_text_idx', 'timeout': 1200},
        ],
        'level': 'proof',
        'obligation_prefixes': ['C16.'],
        'technique': 'Verus loop invariants on the real conversion functions against an independent reference semantics of LSP positions; round-trip, clamping and span selection as verified callers',
        'level_text': 'Deductive proof (Verus/Z3) for every text below 2^30 characters, every offset and every position: the real position_to_utf8 / '
                      'utf8_to_position / utf8_range_to_position equal reference spec functions written from the LSP definition; round trip, clamping '
                      'and span selection are verified callers of those contracts.',
        'level_note': 'Trusted: char::len_utf16 (1 below U+10000, else 2); vstd\'s model of str::chars and char::len_utf8; texts < 2^30 chars; '
                      'positions whose column falls inside a surrogate pair and texts with a lone CR are outside the decided domain; '
                      'str::char_indices as the (byte offset, char) pairs of the text (R-local rewrite to a shim).',
        'design_ref': 'DESIGN.md section 5, C16',
        'explanation': 'Real functions verified against reference spec functions (off/lines_before/col16/skip_lines/advance_col); property clauses are exec callers verified modularly.',
        'assumptions': [
            'machine arithmetic is checked (no overflow) under the stated bound: text shorter than 2^30 characters',
            'round trip is decided for LF / CRLF texts (no lone CR); the offset strictly between CR and LF is a separate obligation (known finding)',
            'position columns strictly inside a surrogate pair: only totality and boundary-ness of the result are decided',
        ],
        'not_decided': [],
    },
    'C13': {
        'units': ['c14', 'c13', 'c13l'],
        'level': 'other',
        'obligation_prefixes': ['C13.'],
        'scans': [
            {'name': 'P13.parse_program', 'kind': 'pinned_text', 'file': 'oal-syntax/src/parser.rs', 'path': [('fn', 'parse_program')],
             'why': 'the real oal_syntax::parse (unit c13l) is verified under the ASSUMED contract that a successful parse_program yields a node: its last line is `Ok((s, c.compose_node(SyntaxKind::Program, ns)))`, and compose_node returns a node (proved, unit c11t)'},
        ],
        'technique': 'Verus contracts on the real CLI entry point (oal-cli.rs `main`, `run`, every write attempt recorded in a ghost log) and on the real playground entry point (oal-wasm `process`, `compile`)',
        'level_text': 'Deductive proof (Verus/Z3) over the real bodies of `run` and `main` (oal-cli.rs), for all configurations and all outcomes of the phases they call: '
                      '`run` Ok ==> exactly one write was attempted, it succeeded, and it wrote a complete serialised document to the configured target; '
                      '`run` Err ==> either no write was attempted at all (every error of loading, parsing, compiling, evaluating, reading the base or serialising comes before the only write), or the single write to the target is what failed; '
                      '`main` exits with code 0 exactly when that one successful write happened, and with code 1 otherwise. '
                      'Front ends: the real `process` / `compile` of oal-wasm and the CLI `run` are proved to emit THE document of the evaluated program (every field of the OpenAPI object and of its components is fixed by the contract of into_openapi, so the document is unique: lemma), '
                      'hence for the same evaluated program and no base the CLI writes and the playground returns the same text; `compile` returns either that text or an empty document with an error. '
                      'Phase by phase (unit c13l, real ProcLoader / WebLoader / WorkspaceLoader / Processor::eval / Workspace::{eval, log_*}): the command line and the playground fail to parse a module exactly when the lexer or parser reports an error, and return the same tree otherwise; '
                      'all three front ends fail to compile a module / to evaluate exactly when the compiler / evaluator reports an error; the language server logs one error per reported syntax error and exactly one per failing compile / evaluation, and none on success: '
                      'so it has logged at least one error for a phase exactly when the command line fails in that phase. '
                      'The one input of the evaluator besides the source text, the module URL hashed into generated component names by the real NodeRef::digest (unit c13), makes the two front ends DISAGREE on programs with generated names: known finding (DESIGN 12.26). '
                      'The playground (oal-wasm) and language-server clauses, "prints a diagnostic located in the sources", and what a failing `std::fs::write` leaves on disk are not decided: level other.',
        'level_note': 'ASSUMED (shims): Config::{new,main,target,base,is_quiet,verbosity}, Processor::{load,eval} (the compiler pipeline; its error paths all surface as Err before the write), DefaultFileSystem::open_file, serde_yaml::{from_reader,to_string}, '
                      'stderrlog builder (`init` succeeds: it is called once), `fs_write_file` = DefaultFileSystem.write_file with the attempt pushed on the ghost log (rule R-ghost). eprintln!/error!/info!/debug! are dropped (rule R3): diagnostics are not modelled. '
                      'Processor::load may itself read files but never writes (not verified: pinned text of cli/mod.rs would be needed; stated as assumption).',
        'design_ref': 'DESIGN.md section 12.10',
        'explanation': 'First sentence of the statement, CLI part. Listed not applicable in the plan because it speaks of process exit status and file-system effects; a ghost log of write attempts threaded through run/main turns both into postconditions.',
        'assumptions': ['the only file-system write of the CLI is the DefaultFileSystem.write_file call in run (Processor::load/eval do not write)', 'stderrlog init succeeds', 'process exit status is the ExitCode returned by main'],
        'not_decided': ['the composition of the per-phase results through the generic error paths of module::load (its own errors InvalidModule / CycleDetected / join, converted with From and downcast again by Workspace::load: by reading, DESIGN 12.29) and Workspace::diagnostics (HashMap entry API: from logged errors to published diagnostics)', 'an unreadable source file (CLI fails, language server logs nothing): not an error kind the statement lists', 'a diagnostic located in the sources is printed', 'state of the target after a failing write (std::fs::write may truncate)'],
    },
    'C14': {
        'units': ['c14'],
        'level': 'proof',
        'obligation_prefixes': ['C14.'],
        'scans': [{'name': 'A1.builder_helpers_do_not_read_base', 'kind': 'no_token_in_fns',
                   'file': 'oal-openapi/src/lib.rs', 'impl': 'impl Builder', 'token': r'\bbase\b',
                   'except': ['new', 'with_base', 'into_openapi', 'default_base']}],
        'technique': 'Verus function contracts (frame postconditions) on the extracted real Builder methods',
        'level_text': 'Deductive proof (Verus/Z3), for every base document and every program: the three real Builder methods are '
                      'verified against a per-field frame contract; field lists are regenerated from the vendored openapiv3 source each run.',
        'level_note': 'Trusted: all_paths/all_components/default_base are functions of self.spec only (uninterpreted contracts + token scan A1); '
                      'Components::default() is a constant; in the CLI glue (run, verified) the file system / Config / Processor / serde_yaml calls are opaque shims; IndexMap method shims.',
        'design_ref': 'DESIGN.md section 5, C14',
        'explanation': 'Frame contract on the real Builder::{new,with_base,into_openapi}: every field of the OpenAPI object '
                       'and of Components (field lists generated from the vendored openapiv3 source on each run) other than '
                       'paths / components.schemas equals the base document\'s; paths and schemas are functions of the program only.',
        'assumptions': [
            'all_paths / all_components / default_base are deterministic functions of self.spec (uninterpreted contracts); '
            'that no helper of impl Builder mentions `base` is checked by token scan A1, not deductively',
            'oal-cli.rs run() is verified too: on success the text written to the target is the YAML of the builder output for the base parsed from the configured file; '
            'the file system, Config getters, Processor::load/eval and serde_yaml are shims with uninterpreted results',
            'serde_yaml (de)serialisation of the base file is outside the contract',
        ],
        'not_decided': [],
    },
}


HOOK_COMMITS = []

NOT_APPLICABLE = {
    'C05': 'hyperproperty relating the outputs of two programs (before/after a rewrite); a contract speaks about one call, and a product encoding would need the whole pipeline inside the verifier',
}


def run_scan(sc):
    if sc['kind'] == 'no_token_in_fns':
        path = os.path.join(REPO, sc['file'])
        src = open(path).read()
        kind = rs.code_mask(src)
        try:
            it = rs.find_item(src, kind, [('impl', sc['impl'])])
        except rs.ScanError as e:
            return False, 'scan %s: lost anchor %s' % (sc['name'], e)
        bad = []
        n = 0
        for f in rs.scan_items(src, kind, it.body_open + 1, it.end - 1):
            if f.kw != 'fn' or f.name in sc['except']:
                continue
            n += 1
            for s, e, _ in rs.find_code(src, kind, sc['token'], f.sig_start, f.end):
                bad.append(f.name)
                break
        if bad:
            return False, 'scan %s: token %s occurs in %s' % (sc['name'], sc['token'], bad)
        return True, 'scan %s: ok (%d functions scanned)' % (sc['name'], n)
    if sc['kind'] == 'fn_text':
        path = os.path.join(REPO, sc['file'])
        src = open(path).read()
        kind = rs.code_mask(src)
        try:
            it = rs.find_item(src, kind, ([('impl', sc['impl'])] if sc.get('impl') else []) + [('fn', sc['fn'])])
        except rs.ScanError as e:
            return False, 'scan %s: lost anchor %s' % (sc['name'], e)
        text = ''.join(ch if kind[it.sig_start + i] != 'k' else ' ' for i, ch in enumerate(src[it.sig_start:it.end]))
        for pat in sc['must']:
            if not re.search(pat, text):
                return False, 'scan %s: expected text /%s/ not found in %s' % (sc['name'], pat, sc['fn'])
        for pat in sc['must_not']:
            if re.search(pat, text):
                return False, 'scan %s: unexpected text /%s/ in %s' % (sc['name'], pat, sc['fn'])
        return True, 'scan %s: ok' % sc['name']
    if sc['kind'] == 'pinned_text':
        # the normalised token text (comments and whitespace removed) of a function must equal the committed pin:
        # used for code an ASSUMPTION was written against (not under contract); a semantic edit makes the assumption stale
        import hashlib
        path = os.path.join(REPO, sc['file'])
        src = open(path).read()
        kind = rs.code_mask(src)
        try:
            it = rs.find_item(src, kind, sc['path'])
        except rs.ScanError as e:
            return False, 'scan %s: lost anchor %s' % (sc['name'], e)
        text = ''.join(ch for i, ch in enumerate(src[it.sig_start:it.end]) if kind[it.sig_start + i] != 'k')
        norm = re.sub(r'\s+', '', text)
        pinfile = os.path.join(os.path.dirname(os.path.dirname(os.path.abspath(__file__))), 'contracts', 'pins', sc['name'] + '.txt')
        if os.environ.get('VERIF_WRITE_PINS'):
            os.makedirs(os.path.dirname(pinfile), exist_ok=True)
            open(pinfile, 'w').write(norm)
        if not os.path.exists(pinfile):
            return False, 'scan %s: no pin file' % sc['name']
        if open(pinfile).read() != norm:
            return False, 'scan %s: %s changed since the assumption that depends on it was written (%s)' % (sc['name'], sc['file'], sc['why'])
        return True, 'scan %s: ok (sha1 %s)' % (sc['name'], hashlib.sha1(norm.encode()).hexdigest()[:12])
    if sc['kind'] == 'grep_count':
        total = 0
        for rel in sc['files']:
            src = open(os.path.join(REPO, rel)).read()
            kind = rs.code_mask(src)
            total += len(list(rs.find_code(src, kind, sc['token'], 0, len(src))))
        if total != sc['count']:
            return False, 'scan %s: %d occurrences of %s, expected %d' % (sc['name'], total, sc['token'], sc['count'])
        return True, 'scan %s: ok (%d occurrences)' % (sc['name'], total)
    return False, 'unknown scan kind'
