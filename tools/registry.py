"""Registry: which units serve which property, and the static token scans."""
import os
import re
import sys

sys.path.insert(0, os.path.dirname(os.path.abspath(__file__)))
import rustscan as rs  # noqa: E402

REPO = os.environ.get('VERIF_REPO', '/repo')

UNITS = {
    'c14': {
        'template': 'contracts/c14.vrs',
        'mutants': [
            ('schemas_replaces_components', 'definition .components .get_or_insert(Default::default()) .schemas = components.schemas;',
             'definition.components = Some(components);', ['C14.components.frame']),
            ('paths_not_replaced', 'definition.paths = paths;', '', ['C14.paths']),
        ],
    },
}

PROPS = {
    'C14': {
        'units': ['c14'],
        'level': 'proof',
        'obligation_prefixes': ['C14.'],
        'scans': [{'name': 'A1.builder_helpers_do_not_read_base', 'kind': 'no_token_in_fns',
                   'file': 'oal-openapi/src/lib.rs', 'impl': 'impl Builder', 'token': r'\bbase\b',
                   'except': ['new', 'with_base', 'into_openapi', 'default_base']}],
        'explanation': 'Frame contract on the real Builder::{new,with_base,into_openapi}: every field of the OpenAPI object '
                       'and of Components (field lists generated from the vendored openapiv3 source on each run) other than '
                       'paths / components.schemas equals the base document\'s; paths and schemas are functions of the program only.',
        'assumptions': [
            'all_paths / all_components / default_base are deterministic functions of self.spec (uninterpreted contracts); '
            'that no helper of impl Builder mentions `base` is checked by token scan A1, not deductively',
            'oal-cli.rs feeds the parsed base file to with_base (4 lines of glue, external I/O, not verified)',
            'serde_yaml (de)serialisation of the base file is outside the contract',
        ],
        'not_decided': [],
    },
}


def run_scan(sc):
    if sc['kind'] == 'no_token_in_fns':
        path = os.path.join(REPO, sc['file'])
        src = open(path).read()
        kind = rs.code_mask(src)
        try:
            it = rs.find_item(src, kind, [('impl', sc['impl'])])
        except rs.ScanError as e:
            return False, 'scan %s: lost anchor %s' % (sc['name'], e)
        bad = []
        n = 0
        for f in rs.scan_items(src, kind, it.body_open + 1, it.end - 1):
            if f.kw != 'fn' or f.name in sc['except']:
                continue
            n += 1
            for s, e, _ in rs.find_code(src, kind, sc['token'], f.sig_start, f.end):
                bad.append(f.name)
                break
        if bad:
            return False, 'scan %s: token %s occurs in %s' % (sc['name'], sc['token'], bad)
        return True, 'scan %s: ok (%d functions scanned)' % (sc['name'], n)
    if sc['kind'] == 'grep_count':
        total = 0
        for rel in sc['files']:
            src = open(os.path.join(REPO, rel)).read()
            kind = rs.code_mask(src)
            total += len(list(rs.find_code(src, kind, sc['token'], 0, len(src))))
        if total != sc['count']:
            return False, 'scan %s: %d occurrences of %s, expected %d' % (sc['name'], total, sc['token'], sc['count'])
        return True, 'scan %s: ok (%d occurrences)' % (sc['name'], total)
    return False, 'unknown scan kind'
