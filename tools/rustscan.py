"""Light-weight lexical scanner for Rust source text.

Only what the extractor needs: skip comments / string / char literals, track bracket
nesting, find items (fn / struct / enum / trait / impl / type / mod / const) by name inside a
brace-delimited scope, find loop headers and closures inside a function body.
No line numbers are used as anchors anywhere: items are addressed by name, loops and
closures by ordinal, ghost statements by the text of the real statement they follow.
"""
import re

IDENT = re.compile(r'[A-Za-z_][A-Za-z0-9_]*')


class ScanError(Exception):
    pass


def code_mask(src):
    """Return a list `kind[i]` for every byte offset of src:
       'c' code, 'k' comment, 's' string/char literal contents (delimiters included)."""
    n = len(src)
    kind = ['c'] * n
    i = 0
    while i < n:
        ch = src[i]
        nxt = src[i + 1] if i + 1 < n else ''
        if ch == '/' and nxt == '/':
            j = src.find('\n', i)
            if j < 0:
                j = n
            for k in range(i, j):
                kind[k] = 'k'
            i = j
        elif ch == '/' and nxt == '*':
            depth = 1
            j = i + 2
            while j < n and depth > 0:
                if src.startswith('/*', j):
                    depth += 1
                    j += 2
                elif src.startswith('*/', j):
                    depth -= 1
                    j += 2
                else:
                    j += 1
            for k in range(i, j):
                kind[k] = 'k'
            i = j
        elif ch == '"' or (ch == 'b' and nxt == '"' and not _ident_before(src, i)):
            j = i + (1 if ch == '"' else 2)
            while j < n and src[j] != '"':
                if src[j] == '\\':
                    j += 1
                j += 1
            j = min(j + 1, n)
            for k in range(i, j):
                kind[k] = 's'
            i = j
        elif ch == 'r' and not _ident_before(src, i) and re.match(r'r#*"', src[i:i + 8]):
            m = re.match(r'r(#*)"', src[i:i + 8])
            hashes = m.group(1)
            end = '"' + hashes
            j = src.find(end, i + len(m.group(0)))
            j = n if j < 0 else j + len(end)
            for k in range(i, j):
                kind[k] = 's'
            i = j
        elif ch == "'":
            # char literal or lifetime
            m = re.match(r"'(\\.[^']*|[^'\\])'", src[i:i + 12])
            if m:
                j = i + len(m.group(0))
                for k in range(i, j):
                    kind[k] = 's'
                i = j
            else:
                i += 1
        else:
            i += 1
    return kind


def _ident_before(src, i):
    return i > 0 and (src[i - 1].isalnum() or src[i - 1] == '_')


OPEN = {'(': ')', '[': ']', '{': '}'}
CLOSE = {')': '(', ']': '[', '}': '{'}


def match_close(src, kind, i):
    """src[i] is an opening bracket in code; return index of its matching close."""
    assert src[i] in OPEN and kind[i] == 'c'
    stack = []
    n = len(src)
    j = i
    while j < n:
        if kind[j] == 'c':
            c = src[j]
            if c in OPEN:
                stack.append(c)
            elif c in CLOSE:
                if not stack or stack[-1] != CLOSE[c]:
                    raise ScanError('unbalanced bracket at offset %d' % j)
                stack.pop()
                if not stack:
                    return j
        j += 1
    raise ScanError('unterminated bracket at offset %d' % i)


def find_code(src, kind, pat, start, end):
    """Iterate regex matches of pat that lie entirely in code."""
    for m in re.finditer(pat, src[start:end]):
        s = start + m.start()
        if all(kind[k] == 'c' for k in range(s, start + m.end())):
            yield s, start + m.end(), m


ITEM_KW = r'\b(fn|struct|enum|trait|impl|type|mod|const|static|union)\b'


class Item:
    def __init__(self, kw, name, header, start, sig_start, body_open, end, src):
        self.kw = kw            # fn / struct / ...
        self.name = name        # ident, or normalised header for impl
        self.header = header    # text between sig_start and body_open (or `;`)
        self.start = start      # start incl. attributes and doc comments
        self.sig_start = sig_start  # start of visibility / keyword
        self.body_open = body_open  # offset of '{' (or None for `;` items)
        self.end = end          # offset one past the closing '}' or ';'
        self.src = src

    def text(self):
        return self.src[self.sig_start:self.end]

    def attrs(self):
        return self.src[self.start:self.sig_start]

    def body(self):
        return self.src[self.body_open:self.end]


def norm_ws(s):
    return re.sub(r'\s+', ' ', s).strip()


def scan_items(src, kind, start, end):
    """List the items directly inside [start, end) (a file or the inside of a brace block)."""
    items = []
    i = start
    depth_guard = 0
    while i < end:
        m = None
        for s, e, mm in find_code(src, kind, ITEM_KW, i, end):
            m = (s, e, mm)
            break
        if m is None:
            break
        s, e, mm = m
        kw = mm.group(1)
        # `impl` inside a type (`impl Trait` in argument position) cannot appear at item level
        # because we always skip whole items; `const fn` / `unsafe fn`: treat `const` followed by fn
        if kw == 'const':
            after = src[e:e + 40]
            if re.match(r'\s+(unsafe\s+)?fn\b', after):
                i = e
                continue
        # find item start: walk back over visibility / qualifiers / attributes
        sig_start = s
        back = src[start:s]
        mq = re.search(r'((pub(\s*\([^)]*\))?|default|async|unsafe|const|extern(\s*"[^"]*")?|open|closed|proof|spec|exec|uninterp)\s+)+$', back)
        if mq:
            sig_start = start + mq.start()
        item_start = _attr_start(src, kind, start, sig_start)
        # find the body open brace or terminating ';' at bracket depth 0
        j = e
        body_open = None
        item_end = None
        while j < end:
            if kind[j] == 'c':
                c = src[j]
                if c in '([':
                    j = match_close(src, kind, j)
                elif c == '<' and kw in ('fn', 'impl', 'struct', 'enum', 'trait', 'type'):
                    pass
                elif c == '{':
                    body_open = j
                    item_end = match_close(src, kind, j) + 1
                    break
                elif c == ';':
                    item_end = j + 1
                    break
            j += 1
        if item_end is None:
            raise ScanError('item without end at offset %d' % s)
        header = src[sig_start:(body_open if body_open is not None else item_end - 1)]
        if kw == 'impl':
            name = norm_ws(src[s:body_open])
        else:
            mi = IDENT.search(src, e)
            name = mi.group(0) if mi else ''
        # tuple struct `struct X(..);` handled by the ';' branch
        items.append(Item(kw, name, header, item_start, sig_start, body_open, item_end, src))
        i = item_end
        depth_guard += 1
        if depth_guard > 100000:
            raise ScanError('runaway scan')
    return items


def _attr_start(src, kind, lo, sig_start):
    """Walk back from sig_start over whitespace, `#[..]` attributes and `///` doc comments."""
    i = sig_start
    while True:
        j = i
        while j > lo and src[j - 1] in ' \t\r\n':
            j -= 1
        if j > lo and src[j - 1] == ']' and kind[j - 1] == 'c':
            # find matching '['
            depth = 0
            k = j - 1
            while k >= lo:
                if kind[k] == 'c':
                    if src[k] == ']':
                        depth += 1
                    elif src[k] == '[':
                        depth -= 1
                        if depth == 0:
                            break
                k -= 1
            if k >= lo + 1 and src[k - 1] == '#':
                i = k - 1
                continue
            if k >= lo + 2 and src[k - 2:k] == '#!':
                return i
            return i
        # doc / line comment directly above
        ls = src.rfind('\n', lo, j - 1 if j > lo else lo)
        line = src[ls + 1:j]
        if line.strip().startswith('///'):
            i = ls + 1 + (len(line) - len(line.lstrip()))
            continue
        return i


def find_item(src, kind, path):
    """path: list of (kw, name) e.g. [('impl','impl Builder'),('fn','into_openapi')]"""
    lo, hi = 0, len(src)
    item = None
    for pi, (kw, name) in enumerate(path):
        items = scan_items(src, kind, lo, hi)
        cands = [it for it in items if it.kw == kw and it.name == name]
        # skip items under #[cfg(test)] / #[test]
        cands = [it for it in cands if '#[test]' not in it.attrs() and 'cfg(test)' not in it.attrs()]
        if len(cands) > 1 and kw == 'impl' and pi + 1 < len(path):
            # several impl blocks with the same header: the one that holds the next path element
            nkw, nname = path[pi + 1]
            cands = [it for it in cands if it.body_open is not None
                     and any(x.kw == nkw and x.name == nname for x in scan_items(src, kind, it.body_open + 1, it.end - 1))]
        if len(cands) != 1:
            raise ScanError('item %s %s: %d candidates' % (kw, name, len(cands)))
        item = cands[0]
        if item.body_open is not None:
            lo, hi = item.body_open + 1, item.end - 1
    return item


LOOP_KW = r'\b(for|while|loop)\b'


def find_loops(src, kind, lo, hi):
    """All loop headers inside [lo,hi) in textual order: (kw, kw_start, body_open)."""
    out = []
    for s, e, m in find_code(src, kind, LOOP_KW, lo, hi):
        kw = m.group(1)
        if kw == 'for':
            # exclude `for<'a>` HRTB and `impl X for Y`
            rest = src[e:e + 2]
            if rest.lstrip().startswith('<'):
                continue
        j = e
        body_open = None
        while j < hi:
            if kind[j] == 'c':
                c = src[j]
                if c in '([':
                    j = match_close(src, kind, j)
                elif c == '{':
                    body_open = j
                    break
                elif c == ';':
                    break
            j += 1
        if body_open is None:
            continue
        out.append((kw, s, body_open))
    return out


def find_closures(src, kind, lo, hi):
    """Closure heads `|params|` inside [lo,hi): list of (bar_start, bar_end_exclusive).
    A `|` starts a closure when the previous code token is one of ( , = { ; or `move`/`return`."""
    out = []
    i = lo
    while i < hi:
        if kind[i] == 'c' and src[i] == '|':
            # previous significant char
            j = i - 1
            while j >= lo and (src[j] in ' \t\r\n' or kind[j] == 'k'):
                j -= 1
            prev = src[j] if j >= lo else '('
            word = re.search(r'(move|return)$', src[lo:j + 1])
            if prev in '(,={;' or word:
                if src[i + 1] == '|':
                    out.append((i, i + 2))
                    i += 2
                    continue
                k = i + 1
                while k < hi and not (src[k] == '|' and kind[k] == 'c'):
                    if kind[k] == 'c' and src[k] in '([':
                        k = match_close(src, kind, k)
                    k += 1
                out.append((i, k + 1))
                i = k + 1
                continue
        i += 1
    return out
