#!/bin/bash
# (kept for the record: the script referred to as /tmp/confirm3.sh in seeded/*/meta.json) confirms a seeded change in a scratch worktree: demo without patch, suite with patch, demo with patch
# usage: confirm3.sh <worktree> <seed-dir with patch.diff and demo/run.sh>
W=$1; S=$2
export CARGO_NET_OFFLINE=true CARGO_TARGET_DIR=$W/target
cd $W && git checkout -q -- . 
echo "== demo WITHOUT patch"; sh $S/demo/run.sh $W; echo "exit=$?"
git apply $S/patch.diff || { echo "PATCH DOES NOT APPLY"; exit 1; }
echo "== suite WITH patch"; cargo test --workspace --offline 2>&1 | grep "test result\|FAILED\|error" 
echo "== demo WITH patch"; sh $S/demo/run.sh $W; echo "exit=$?"
git checkout -q -- .
echo done
