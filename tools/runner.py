#!/usr/bin/env python3
"""Runs the verifier back ends for one property, classifies the outcome, writes evidence and
replay files.  See DESIGN.md section 2.3 for the exit-code discipline:

  0  every obligation of the decided clauses discharged (KNOWN-FINDING lines allowed)
  1  a named obligation fails that is not a listed known finding  -> VIOLATION line
  2  undecided (lost anchor, unsupported construct, rlimit, changed trusted base, vacuity guard)
"""
import concurrent.futures as cf
import json
import os
import re
import shutil
import subprocess
import sys
import time

HERE = os.path.dirname(os.path.abspath(__file__))
ROOT = os.path.dirname(HERE)
sys.path.insert(0, HERE)
import extract  # noqa: E402
import registry  # noqa: E402
import kanirun  # noqa: E402

GEN = os.environ.get('VERIF_GEN') or os.path.join(ROOT, 'gen')
REPLAY = os.environ.get('VERIF_REPLAY') or os.path.join(ROOT, 'replay')
EVID = os.environ.get('VERIF_EVID') or os.path.join(ROOT, 'evidence')
VERUS = shutil.which('verus') or '/opt/veriftools/verus/verus'

UNDECIDED_PATTERNS = [
    r'Resource limit \(rlimit\) exceeded', r'rlimit', r'timed? ?out',
    r'not (yet )?support', r'unsupported', r'cannot find', r'mismatched types', r'expected .* found',
    r'no method named', r'unresolved', r'cyclic self-reference', r'is not supported',
    r'The verifier does not', r'unknown', r'trait bound', r'borrow', r'moved value', r'private',
    r'Verus does not', r'could not', r'failed to', r'syntax', r'expected one of', r'unexpected',
    r'lifetime', r'is ambiguous', r'type annotations needed', r'no field', r'missing',
    r'termination proof', r'recursive function must have a decreases', r'loop must have a decreases',
    r'decreases clause', r'must have a decreases',
]
# messages that are genuine failed proof obligations
FAIL_PATTERNS = [
    r'postcondition not satisfied', r'precondition not satisfied', r'invariant not satisfied',
    r'assertion failed', r'possible arithmetic (under|over)flow', r'possible division by zero',
    r'decreases not satisfied', r'could not prove termination', r'possible bit shift',
    r'loop invariant', r'recommendation not met', r'unreachable', r'index out of bounds',
    r'failed to satisfy', r'not satisfied', r'might not hold', r'possible .*overflow',
    r'cannot show .* (exhaustive|unreachable)', r'ensures not satisfied', r'unable to prove',
]


class Outcome:
    def __init__(self):
        self.undecided = []     # reasons
        self.failed = {}        # obligation -> [messages]
        self.ok_obligations = []
        self.all_obligations = []
        self.info = {}


def run_verus(path, seed=None, rlimit=None, extra=None):
    cmd = [VERUS, os.path.basename(path), '--output-json', '--time', '--multiple-errors', '30',
           '--triggers-mode', 'silent']
    if seed is not None:
        cmd += ['--smt-option', 'smt.random_seed=%d' % seed, '--smt-option', 'sat.random_seed=%d' % seed]
    if rlimit:
        cmd += ['--rlimit', str(rlimit)]
    if extra:
        cmd += extra
    cmd += ['--', '--error-format=json']
    t0 = time.time()
    p = subprocess.run(cmd, cwd=os.path.dirname(path), capture_output=True, text=True)
    wall = time.time() - t0
    try:
        js = json.loads(p.stdout[p.stdout.index('{'):])
    except Exception:
        js = {}
    diags = []
    for ln in p.stderr.split('\n'):
        ln = ln.strip()
        if ln.startswith('{'):
            try:
                diags.append(json.loads(ln))
            except Exception:
                pass
    return {'cmd': ' '.join(cmd), 'json': js, 'diags': diags, 'stderr': p.stderr, 'wall_s': wall, 'rc': p.returncode}


def resolve_spans(d, gen_name):
    """Replace spans that point into macro definitions (core/vstd) by their call site in the generated file."""
    out = []
    for s in d.get('spans', []):
        cur = s
        hops = 0
        while cur is not None and os.path.basename(cur.get('file_name', '')) != gen_name and hops < 10:
            exp = cur.get('expansion')
            cur = exp.get('span') if exp else None
            hops += 1
        if cur is not None:
            cur = dict(cur)
            cur['is_primary'] = s.get('is_primary', False)
            cur['label'] = s.get('label')
            out.append(cur)
        else:
            out.append(s)
    d['spans'] = out
    return d


def classify_message(d):
    msg = d.get('message', '')
    if d.get('level') != 'error':
        return 'ignore'
    if msg.startswith('aborting due to'):
        return 'ignore'
    if d.get('code'):
        return 'undecided'      # rustc error code: a compile error in the generated file
    for p in FAIL_PATTERNS:
        if re.search(p, msg):
            if re.search(r'rlimit|Resource limit', msg):
                return 'undecided'
            return 'fail'
    return 'undecided'


def fn_at(fnmap, line):
    for f in fnmap:
        if f['gen_first'] <= line <= f['gen_last']:
            return f
    return None


def proof_fn_at(text_lines, line):
    """Name of the enclosing `fn` (any mode) by scanning upward for a fn header at column <= 4."""
    for n in range(min(line, len(text_lines)) - 1, -1, -1):
        m = re.match(r'\s{0,8}(pub\s+)?(open\s+|closed\s+)?(broadcast\s+)?(proof|spec|exec)?\s*fn\s+(\w+)', text_lines[n])
        if m:
            return m.group(5)
    return None


def label_for(diag, labels, fnmap, text_lines, gen_name=None):
    """Name the failed obligation: the OBL label on the failed clause, else the label of the taken
    function (or the name of the lemma) whose body holds the primary span."""
    spans = diag.get('spans', [])
    if gen_name:
        # spans inside vstd (e.g. the `requires false` of unreachable!/panic!) carry foreign line numbers
        own = [s for s in spans if os.path.basename(s.get('file_name', '')) == gen_name]
        if own:
            if not any(s.get('is_primary') for s in own):
                own[0] = dict(own[0], is_primary=True)
            spans = own
    clause_spans = [s for s in spans if s.get('label') and re.search(r'failed this|failed precondition|this invariant|failed', s['label'])]
    primary = [s for s in spans if s.get('is_primary')]
    kind = diag.get('message', '')
    names = []
    # 1. labelled clause
    for s in clause_spans or primary:
        if s['line_end'] - s['line_start'] > 60:
            continue
        for ln in range(s['line_start'], s['line_end'] + 1):
            for lab in labels.get(ln, []):
                if lab not in names:
                    names.append(lab)
        if names:
            break
    site = None
    for s in primary or spans:
        f = fn_at(fnmap, s['line_start'])
        if f:
            site = f
            break
    if names:
        return names, site
    # 2. an OBL label on the primary line (e.g. on an injected assert / anchor)
    for s in primary:
        for ln in range(s['line_start'], min(s['line_end'], s['line_start'] + 3) + 1):
            for lab in labels.get(ln, []):
                names.append(lab)
    if names:
        return names, site
    if site:
        return site['label'].split(','), site
    for s in primary or spans:
        nm = proof_fn_at(text_lines, s['line_start'])
        if nm:
            return ['lemma:' + nm], None
    return ['unlabelled:' + kind[:40]], None


def _uncompilable_bodies(r, fnmap, gen_name):
    """Extracted functions whose BODY holds the primary span of a compile / front-end error (never a verification failure)."""
    out = []
    for d in r['diags']:
        d = resolve_spans(d, gen_name)
        if classify_message(d) != 'undecided' or re.search(r'rlimit|Resource limit', d.get('message', '')):
            continue
        own = [s_ for s_ in d.get('spans', []) if os.path.basename(s_.get('file_name', '')) == gen_name]
        prim = [s_ for s_ in own if s_.get('is_primary')] or own
        if not prim:
            return []      # an error that cannot be located: no isolation at all
        f = fn_at(fnmap, prim[0]['line_start'])
        if not f or 'body_first' not in f or prim[0]['line_start'] < f['body_first']:
            return []      # outside every extracted body (shim, spec text, signature): the unit as a whole is undecided
        if f not in out:
            f['_msgs'] = []
            out.append(f)
        f['_msgs'].append('%s (line %d)' % (d.get('message', '')[:120], prim[0]['line_start']))
    return out


def run_unit(unit, tier, seed):
    """Expand + verify one Verus unit.  Returns dict with obligations, failures, undecided."""
    u = registry.UNITS[unit]
    res = {'unit': unit, 'undecided': [], 'failed': {}, 'obligations': [], 'discharged': [],
           'functions': [], 'rules': {}, 'trusted': [], 'solver_ms': 0, 'wall_s': 0.0,
           'canaries': [], 'cmd': '', 'taken': [], 'mutants': [], 'seeds': []}
    tpl = os.path.join(ROOT, u['template'])
    out = os.path.join(GEN, unit + '.rs')
    t0 = time.time()
    try:
        text, fnmap, log = extract.expand(tpl, out)
    except extract.Undecided as e:
        res['undecided'].append(str(e))
        return res
    except Exception as e:  # scanner failure on changed source: undecided, never an alarm
        res['undecided'].append('extractor error: %r' % (e,))
        return res
    res['rules'] = log.rules
    res['taken'] = log.taken
    res['functions'] = [{'label': f['label'], 'fn': f['fn'], 'source': '%s:%d' % (f['source'], f['source_line'])} for f in fnmap]
    labels = extract.obl_labels(text)
    text_lines = text.split('\n')
    # --- trusted base scan against the committed allow-list
    trusted = extract.trusted_scan(text)
    res['trusted'] = [('%s %s' % (t['kind'], t['what'])).strip() for t in trusted]
    # opaque payload types generated by a field mirror follow the dependency, not the allow-list
    n_opaque = len([t for t in res['trusted'] if re.match(r'external_body struct T_', t)])
    res['trusted'] = [t for t in res['trusted'] if not re.match(r'external_body struct T_', t)]
    if n_opaque:
        res['trusted'].append('opaque payload types generated from vendored field lists: %d' % n_opaque)
    allow_path = os.path.join(ROOT, u['template'].replace('.vrs', '.trusted'))
    have = sorted(t for t in res['trusted'] if not t.startswith('opaque payload types'))
    for f in fnmap:
        if f.get('isolated') and ('external_body fn %s' % f.get('gen_fn', f['fn'])) in have:
            have.remove('external_body fn %s' % f.get('gen_fn', f['fn']))
    if os.environ.get('VERIF_WRITE_TRUSTED') == unit:
        open(allow_path, 'w').write('# trusted base of unit %s: every assumption the generated file may contain\n' % unit + '\n'.join(have) + '\n')
    if os.path.exists(allow_path):
        allow = sorted(l.strip() for l in open(allow_path) if l.strip() and not l.startswith('#'))
        if allow != have:
            extra = [x for x in have if x not in allow]
            gone = [x for x in allow if x not in have]
            res['undecided'].append('trusted base differs from committed allow-list (+%s -%s)' % (extra, gone))
            return res
    else:
        res['undecided'].append('no trusted-base allow-list %s' % allow_path)
        return res
    # --- expected canaries
    canaries = re.findall(r'(?m)^\s*proof\s+fn\s+(canary_\w+)', text)
    need = ['canary_axioms'] + ['canary_reach_' + f['fn'] for f in fnmap if _has_requires(text_lines, f)]
    for c in need:
        if c not in canaries and c not in u.get('canary_exempt', []):
            res['undecided'].append('vacuity guard: template lacks %s' % c)
    if res['undecided']:
        return res
    all_obl = sorted(set(l for ls in labels.values() for l in ls) | set(x for f in fnmap for x in f['label'].split(',')))
    all_obl = [o for o in all_obl if not o.startswith('canary')]
    res['obligations'] = all_obl
    r = run_verus(out, seed=(seed if seed else None), rlimit=u.get('rlimit'))
    res['cmd'] = r['cmd']
    res['wall_s'] = r['wall_s']
    # --- per-function isolation.  A body that left the verifiable subset (rustc / Verus front-end error whose primary span lies
    # inside the BODY of an extracted function) is replaced by `external_body` under the same contract, line count preserved:
    # that function's obligations are undecided, the others are still decided against its contract (verification is modular).
    isolated = []
    res['iso_notes'] = []

    def _labels_of(f):
        return sorted(set(x for x in f['label'].split(',')) | set(f.get('obls', [])) | set(l for n in range(f['gen_first'], f['gen_last'] + 1) for l in labels.get(n, [])))

    # functions the extractor already had to emit as stubs (lost anchor inside the body, rewrite rule no longer applicable)
    for f in fnmap:
        if f.get('isolated'):
            isolated.append(f)
            res['iso_notes'].append({'labels': _labels_of(f), 'msg': 'body of %s can no longer be extracted mechanically (%s); kept as an assumed contract: its obligations %s are undecided'
                                     % (f['fn'], str(f['isolated'])[:300], f['label'])})
    for _round in range(3):
        bad = [f for f in _uncompilable_bodies(r, fnmap, unit + '.rs') if f not in isolated]
        if not bad:
            break
        for f in bad:
            msgs = f.pop('_msgs')
            lab = _labels_of(f)
            isolated.append(f)
            res['iso_notes'].append({'labels': lab, 'msg': 'body of %s is outside the verifiable subset on this tree (%s); isolated under its contract: its obligations %s are undecided'
                                     % (f['fn'], '; '.join(msgs)[:300], f['label'])})
            for n in range(f['body_first'] - 1, f['gen_last']):
                text_lines[n] = ''
            text_lines[f['body_first'] - 1] = '{ unimplemented!() }'
            text_lines[f['gen_first'] - 1] = '#[verifier::external_body] ' + text_lines[f['gen_first'] - 1]
        open(out, 'w').write('\n'.join(text_lines))
        r = run_verus(out, seed=(seed if seed else None), rlimit=u.get('rlimit'))
        res['wall_s'] += r['wall_s']
    res['isolated'] = [f['fn'] for f in isolated]
    _collect(r, res, labels, fnmap, text_lines, canaries, unit)
    if isolated:
        # nothing about an isolated function counts as discharged
        gone = set(l for f in isolated for l in _labels_of(f))
        still = set(l for n, ls in labels.items() for l in ls if not any(f['gen_first'] <= n <= f['gen_last'] for f in isolated)) | set(x for f in fnmap if f not in isolated for x in f['label'].split(','))
        res['obligations'] = [o for o in res['obligations'] if o not in gone or o in still]
    if tier == 'thorough' and not res['undecided']:
        # seed stability
        base_fail = sorted(res['failed'])
        for k in (1, 2, 3):
            rr = run_verus(out, seed=1000 * k + (seed or 0), rlimit=u.get('rlimit'))
            tmp = {'undecided': [], 'failed': {}, 'canaries': [], 'solver_ms': 0, 'fn_success': {}}
            _collect(rr, tmp, labels, fnmap, text_lines, canaries, unit)
            res['seeds'].append({'seed': 1000 * k + (seed or 0), 'failed': sorted(tmp['failed']), 'undecided': tmp['undecided']})
            if sorted(tmp['failed']) != base_fail or tmp['undecided']:
                res['undecided'].append('proof unstable across solver seeds: %s vs %s %s' % (base_fail, sorted(tmp['failed']), tmp['undecided']))
        # built-in negative controls on the extracted text
        for mname, old, new, expect in u.get('mutants', []):
            pat = extract.anchor_regex(old)
            hits = re.findall(pat, text)
            if len(hits) != 1:
                res['mutants'].append({'name': mname, 'status': 'skipped (anchor text matches %d sites)' % len(hits)})
                continue
            mtext = re.sub(pat, lambda _m: new, text)
            mpath = os.path.join(GEN, '%s_mut_%s.rs' % (unit, mname))
            open(mpath, 'w').write(mtext)
            rr = run_verus(mpath, rlimit=u.get('rlimit'))
            tmp = {'undecided': [], 'failed': {}, 'canaries': [], 'solver_ms': 0, 'fn_success': {}}
            _collect(rr, tmp, extract.obl_labels(mtext), fnmap, mtext.split('\n'), canaries, unit, os.path.basename(mpath))
            killed = [o for o in tmp['failed'] if o not in res['failed'] and any(o.startswith(e) for e in expect)]
            res['mutants'].append({'name': mname, 'status': 'killed' if killed else 'SURVIVED', 'by': sorted(o for o in tmp['failed'] if o not in res['failed']), 'undecided': tmp['undecided']})
            os.remove(mpath)
            if not killed:
                res['undecided'].append('vacuity guard: built-in negative control %s not detected (%s)' % (mname, tmp['undecided'] or sorted(tmp['failed'])))
    res['discharged'] = [o for o in res['obligations'] if o not in res['failed'] and o not in res.get('inconclusive', [])]
    res['total_wall_s'] = time.time() - t0
    return res


def _has_requires(text_lines, f):
    for n in range(f['gen_first'] - 1, min(f['gen_last'], len(text_lines))):
        s = text_lines[n].strip()
        if s.startswith('{'):
            return False
        if re.match(r'requires\b', s):
            return True
    return False


def _collect(r, res, labels, fnmap, text_lines, canaries, unit, gen_name=None):
    gen_name = gen_name or (unit + '.rs')
    js = r['json']
    vr = js.get('verification-results', {})
    if not js:
        res['undecided'].append('verus produced no JSON (rc=%s): %s' % (r['rc'], r['stderr'][-400:]))
        return
    canary_hit = set()
    for d in r['diags']:
        d = resolve_spans(d, gen_name)
        c = classify_message(d)
        if c == 'ignore':
            continue
        # which function is the primary span in?
        own_spans = [s for s in d.get('spans', []) if os.path.basename(s.get('file_name', '')) == gen_name] or d.get('spans', [])
        prim = [s for s in own_spans if s.get('is_primary')] or own_spans
        encl = proof_fn_at(text_lines, prim[0]['line_start']) if prim else None
        # errors inside canaries are expected
        in_canary = False
        for s in own_spans:
            nm = proof_fn_at(text_lines, s['line_start'])
            if nm and nm.startswith('canary_'):
                in_canary = True
                canary_hit.add(nm)
        if in_canary:
            continue
        if c == 'undecided':
            res['undecided'].append('%s (gen/%s.rs:%s)' % (d.get('message', '')[:200], unit, prim[0]['line_start'] if prim else '?'))
            continue
        names, site = label_for(d, labels, fnmap, text_lines, gen_name)
        # an UNLABELLED `assert!` / callee-precondition failure inside a function body in a function that now
        # calls library functions it did not call when the contract was written: the specifications of those dependencies
        # were never validated with this contract, so the failure is undecided, not a violation
        if site and site.get('new_calls') and names == site['label'].split(',') and re.search(r'assertion failed|precondition not satisfied', d.get('message', '')):
            res['undecided'].append('body obligation of %s failed (%s) but the function now also calls %s, whose specifications were not validated with this contract'
                                    % (site['fn'], d.get('message', '')[:60], site['new_calls']))
            continue
        # a failed proof inside a function whose loop / exit structure is not the one its loop contracts were written for is no verdict:
        # the invariants and loop `ensures` of the template describe the old control flow (a `while a && b` split into `while a { if !b { break } .. }`
        # is the same program and needs a different loop contract)
        if site and site.get('shape_changed'):
            res['undecided'].append('an obligation of %s failed (%s), but the loop structure of the function changed since its loop contracts were written (%s): a failed proof is no verdict'
                                    % (site['fn'], d.get('message', '')[:60], json.dumps(site['shape_changed'])))
            res.setdefault('inconclusive', []).extend(names)
            continue
        for nm in names:
            res['failed'].setdefault(nm, []).append({
                'message': d.get('message'),
                'rendered': d.get('rendered', '')[:3000],
                'site': ('%s:%d' % (site['source'], site['source_line'])) if site else encl,
            })
    if vr.get('encountered-vir-error') and not res['undecided'] and not res['failed']:
        res['undecided'].append('verus front-end error: %s' % r['stderr'][-400:])
    # per-function success table
    fb = {}
    try:
        for mod in js['times-ms']['smt']['smt-run-module-times']:
            for f in mod.get('function-breakdown', []):
                fb[f['function']] = f['success']
        res['solver_ms'] = res.get('solver_ms', 0) + js['times-ms']['smt'].get('smt-run', 0)
        res['verus_total_ms'] = js['times-ms'].get('total', 0)
    except Exception:
        pass
    res['fn_success'] = fb
    res['verified_count'] = vr.get('verified')
    res['error_count'] = vr.get('errors')
    # canaries must all fail
    for c in canaries:
        st = [v for k, v in fb.items() if k.endswith('::' + c)]
        failed = (c in canary_hit) or (st and not st[0])
        res['canaries'].append({'name': c, 'fails_as_required': bool(failed)})
        if not failed and not res['undecided']:
            res['undecided'].append('vacuity guard: %s verified (contradictory assumptions or unsatisfiable precondition)' % c)
    # every taken function must appear as verified unless it has a recorded failure
    if not res['undecided']:
        for f in fnmap:
            st = [v for k, v in fb.items() if k.endswith('::' + f['fn']) or k.endswith('::' + f['fn'].split('::')[-1])]
            if not st and not vr.get('encountered-error'):
                # functions with trivially true obligations still show up; absence means not verified
                res.setdefault('notes', []).append('no solver record for %s' % f['fn'])


# ---------------------------------------------------------------------------------------------

def load_known():
    p = os.path.join(ROOT, 'known_findings.json')
    if not os.path.exists(p):
        return []
    return json.load(open(p)).get('findings', [])


def main(argv):
    if len(argv) < 2:
        print('usage: check <Cxx> [--tier quick|thorough] [--replay file]')
        return 2
    prop = argv[1]
    tier = os.environ.get('VERIF_TIER', 'quick')
    if '--tier' in argv:
        tier = argv[argv.index('--tier') + 1]
    if tier not in ('quick', 'thorough'):
        tier = 'quick'
    if '--replay' in argv:
        path = argv[argv.index('--replay') + 1]
        print(open(path).read())
        return 0
    seed = int(os.environ.get('VERIF_SEED', '0') or 0)
    if prop not in registry.PROPS:
        print('unknown or not-applicable property %s' % prop)
        return 2
    P = registry.PROPS[prop]
    t0 = time.time()
    global GEN
    if not os.environ.get('VERIF_GEN'):
        # one generated-files directory per (property, tier): several properties share units (c01 serves six of them), and two checks
        # running at the same time must not overwrite each other's generated file while Verus reads it
        GEN = os.path.join(ROOT, 'gen', '%s-%s' % (prop, tier))
    os.makedirs(GEN, exist_ok=True)
    os.makedirs(EVID, exist_ok=True)
    results = []
    kani_results = []
    kani_all = P.get('kani', [])
    kani_jobs = [h for h in kani_all if tier == 'thorough' or h.get('tier', 'quick') == 'quick']
    if os.environ.get('VERIF_NO_KANI'):
        # regression workers on a scratch worktree (tools/seedrun_par.py): the Kani crates include /repo's files by absolute path, so they are
        # only meaningful for /repo itself; patches that touch a file a harness reads are routed to the worker that runs on /repo
        kani_jobs = []
    with cf.ThreadPoolExecutor(max_workers=8) as ex:
        futs = [ex.submit(run_unit, u, tier, seed) for u in P['units']]
        kfuts = [ex.submit(kanirun.run_harness, h, True) for h in kani_jobs]
        for f in futs:
            results.append(f.result())
        for f in kfuts:
            kani_results.append(f.result())
    # Fallback (bounded stand-in): when a Verus unit went stale on the changed code (lost anchor, construct outside
    # the verifiable subset), the proof no longer speaks.  The property's bounded Kani harnesses over the REAL code are
    # then run even in the quick tier: a counterexample they find is a violation (replayed on the real code, labelled
    # bounded); if they pass, the verdict stays UNDECIDED (exit 2).
    stale = [r for r in results if r['undecided']]
    if stale:
        done = set(k['harness'] for k in kani_results)
        extra = [h for h in kani_all if h.get('bounded') and ('%s::%s' % (h['package'], h['harness'])) not in done
                 and (not h.get('fallback_for') or any(r['unit'] in h['fallback_for'] for r in stale))]
        if extra:
            with cf.ThreadPoolExecutor(max_workers=4) as ex:
                for f in [ex.submit(kanirun.run_harness, dict(h, timeout=min(h.get('timeout', 900), 900)), True) for h in extra]:
                    kani_results.append(f.result())
    # static (token-scan) assumptions checks
    scan_notes = []
    for sc in P.get('scans', []):
        ok, note = registry.run_scan(sc)
        scan_notes.append(note)
        if not ok:
            results.append({'unit': 'scan:' + sc['name'], 'undecided': [note], 'failed': {}, 'obligations': [], 'discharged': [],
                            'functions': [], 'rules': {}, 'trusted': [], 'solver_ms': 0, 'wall_s': 0, 'canaries': [], 'cmd': '', 'taken': [], 'mutants': [], 'seeds': []})
    prefixes = P['obligation_prefixes']

    def mine(o):
        return any(o.startswith(p) for p in prefixes)

    undecided = []
    failed = {}
    obligations = []
    discharged = []
    for r in results:
        undecided += ['[%s] %s' % (r['unit'], x) for x in r['undecided']]
        # an isolated function makes undecided only the properties it serves
        undecided += ['[%s] %s' % (r['unit'], n['msg']) for n in r.get('iso_notes', []) if any(mine(l) for l in n['labels'])]
        for o, msgs in r['failed'].items():
            if mine(o) or o.startswith('lemma:') or o.startswith('unlabelled:'):
                failed.setdefault(o, []).extend(msgs)
        obligations += [o for o in r['obligations'] if mine(o)]
        discharged += [o for o in r.get('discharged', []) if mine(o)]
    bounded = []
    for k in kani_results:
        if k['status'] == 'undecided':
            undecided.append('[kani:%s] %s' % (k['harness'], k['detail']))
        elif k['status'] == 'fail':
            failed.setdefault(k['obligation'], []).append({'message': 'Kani: ' + k['detail'], 'rendered': k.get('output', '')[-3000:], 'site': k['harness'], 'counterexample': k.get('counterexample')})
            if not k.get('bounded'):
                obligations.append(k['obligation'])
        else:
            if k.get('bounded'):
                bounded.append({'harness': k['harness'], 'bound': k['bound'], 'checks': k.get('checks'), 'obligation': k['obligation'], 'status': 'passed within bound', 'wall_s': k['wall_s']})
            else:
                obligations.append(k['obligation'])
                discharged.append(k['obligation'])
    # scaffolding obligations (contract-internal pins, e.g. a mirrored policy) never raise an alarm
    for o in [o for o in failed if o.startswith('SCAFFOLD.')]:
        undecided.append('contract scaffolding out of date: %s (%s)' % (o, failed[o][0]['message']))
        del failed[o]
    known = [k for k in load_known() if k['property'] == prop and k.get('status') == 'known']
    known_obl = {k['obligation']: k for k in known}
    violations = []
    known_lines = []
    for o in sorted(failed):
        if o in known_obl:
            known_lines.append('KNOWN-FINDING: property=%s %s: %s' % (prop, o, known_obl[o]['what']))
        else:
            violations.append(o)
    # a known finding whose obligation no longer fails is simply not printed
    wall = time.time() - t0
    rc = 0
    out_lines = []
    if undecided and not violations:
        rc = 2
    if violations:
        rc = 1
    shutil.rmtree(os.path.join(REPLAY, prop), ignore_errors=True)
    os.makedirs(os.path.join(REPLAY, prop), exist_ok=True)
    need_cex = [o for o in violations if not any(m.get('counterexample') for m in failed[o])]
    cexs = kanirun.find_counterexamples(prop, need_cex) if need_cex else {}
    for o in violations:
        rp = os.path.join(REPLAY, prop, re.sub(r'[^\w.\-]', '_', o) + '.txt')
        cex = None
        body = ['property: %s' % prop, 'failed obligation: %s' % o, 'tier: %s' % tier, '']
        for m in failed[o]:
            body.append('verifier message: %s' % m['message'])
            if m.get('site'):
                body.append('site: %s' % m['site'])
            if m.get('counterexample'):
                cex = m['counterexample']
            body.append(m.get('rendered', ''))
            body.append('')
        if cex is None:
            cex = cexs.get(o)
        if cex:
            body.insert(3, 'failing input (replayed on the real code): %s' % json.dumps(cex))
        else:
            body.insert(3, 'no-failing-input-found: the verifier gave no counterexample; the obligation above passed on the pinned tree and fails on this one')
        open(rp, 'w').write('\n'.join(body))
        out_lines.append('VIOLATION property=%s replay=%s obligation=%s%s' % (prop, rp, o, '' if cex else ' no-failing-input-found'))
    for l in known_lines:
        print(l)
    for l in undecided:
        print('UNDECIDED: %s' % l)
    for l in out_lines:
        print(l)
    # ------------------------------------------------------------------ evidence
    trusted = sorted(set(t for r in results for t in r['trusted']))
    level = P['level']
    # obligations recorded as known findings are reported separately, not counted as proof obligations
    obligations = [o for o in obligations if not (o in known_obl and o in failed)]
    n_obl = len(set(obligations))
    n_dis = len(set(o for o in discharged if o not in failed))
    cov = {
        'obligations': n_obl,
        'discharged': n_dis,
        'checker_cmd': '; '.join([r['cmd'] for r in results if r['cmd']] + [k['cmd'] for k in kani_results]),
        'trusted_base': trusted + P.get('trusted_extra', []),
        'samples': sorted(set(obligations))[:400],
        'functions_under_contract': [f for r in results for f in r['functions']],
        'items_extracted': [t for r in results for t in r['taken']],
        'rewrite_rules_applied': {r['unit']: r['rules'] for r in results if r['rules']},
        'backends': {'verus(z3)': sorted(set(o for r in results for o in r.get('discharged', []) if mine(o))),
                     'kani(cbmc) complete': [k['obligation'] for k in kani_results if k['status'] == 'pass' and not k.get('bounded')]},
        'bounded': bounded,
        'solver_ms': sum(r.get('solver_ms', 0) for r in results),
        'verus_functions_verified': sum((r.get('verified_count') or 0) for r in results),
        'canaries': [c for r in results for c in r['canaries']],
        'negative_controls': [m for r in results for m in r['mutants']],
        'seed_stability': [s for r in results for s in r['seeds']],
        'scans': scan_notes,
        'known_findings_hit': known_lines,
        'failed_obligations': sorted(failed),
        'undecided': undecided,
        'explanation': P['explanation'],
        'not_decided': P.get('not_decided', []),
    }
    ev = {
        'property_id': prop, 'tier': tier, 'seed': seed, 'level': level,
        'coverage': cov,
        'assumptions': P.get('assumptions', []) + ['trusted: ' + t for t in trusted],
        'wall_s': round(wall, 2),
        'violations': len(violations),
    }
    with open(os.path.join(EVID, prop + '.json'), 'w') as f:
        json.dump(ev, f, indent=1)
    print('%s %s: %d obligations, %d discharged, %d known-finding, %d violation(s), %d undecided; %.1fs'
          % (prop, tier, n_obl, n_dis, len(known_lines), len(violations), len(undecided), wall))
    return rc


if __name__ == '__main__':
    sys.exit(main(sys.argv))
