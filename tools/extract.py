#!/usr/bin/env python3
"""Mechanical extractor + contract injector.

Reads a contract template (contracts/<unit>.vrs), copies the *current* text of the items of
/repo it names into one Verus file, injecting contract clauses at syntactic anchors only, and
applying the closed list of rewrite rules R0-R4 of DESIGN.md section 2.1 (each logged).

Template directives (lines starting with `//@`):

  //@ fn <file> :: <container> :: ... :: <name> [label=<L>] [vis=<text>] [rename=<new>] [pre=<text>]
  //@ ret <binder>             name the return value:  -> T   becomes  -> (binder: T)
  //@ sig <old> => <new>       textual replacement inside the signature (exactly one site)
  //@ spec                     following lines (until next directive) go between signature and body
  //@ loop <n> [iter <name>]   following lines go into the header of the n-th loop of the body
  //@ closure <n> <new head>   replace the head `|..|` of the n-th closure, following lines are its spec
  //@ closure-opaque <n> ..    the n-th closure is deliberately left without a specification (its result is not constrained by the
                               contract, e.g. an error conversion); any OTHER closure without annotation makes the function undecided
  //@ after "<stmt text>"      following lines are inserted after the (unique) statement text
  //@ before "<stmt text>"     same, before
  //@ after-loop <n>           following lines are inserted after the closing brace of the n-th loop
  //@ fn-begin                 following lines go at the very start of the function body (structural anchor)
  //@ loop-begin <n> / loop-end <n>   following lines go at the start / end of the n-th loop's body (structural anchors)
  //@ ghost-param <name: Ghost type>   append an erased (ghost) parameter to the parameter list (rule R10); call sites pass
                               it through a `subst`
  //@ params <a> <b> ..        alpha-rename the non-self parameters, by position, to these names (rule R7)
  //@ locals <a> <b> ..        pinned names of the simple let/for/if-let bindings in order of first binding; a body whose
                               bindings differ only by name is alpha-renamed back to them (rule R7b)
  //@ subst "<old>" => "<new>" [count=<k>|count=*]   literal replacement in the body, site count checked (logged as R-local);
                               count=* replaces every occurrence, none required (for std calls whose vstd spec is too weak)
  //@ subst-re "<regex>" => "<replacement with \1..>" [count=..]   same, the site given by a regular expression (a blank matches any
                               whitespace): for rewrites that must not depend on the names of locals
  //@ end

  //@ item <file> :: <container> :: ... :: <kw> <name> [derive=<list>] [vis=pub]
        copies a struct / enum / type alias; derives reduced per rule R0

  //@ trait <file> :: trait <Name>
  //@ members                  following lines inserted at the start of the trait body
  //@ method <name>            (then optional  //@ ret / //@ spec  as for fn)
  //@ end

  //@ fieldmirror <crate> <file> <struct> [as <Name>] [opaque]   field-list mirror generated from the vendored crate
  //@ include <path>           textual include of another template fragment (prelude)
  //@ expect-fail <label>      (inside fn / lemma)  recorded in map: obligation is a canary / negative control

Everything else is copied verbatim.  Lines carrying `// OBL <name>` name obligations.
"""
import json
import os
import re
import sys

sys.path.insert(0, os.path.dirname(os.path.abspath(__file__)))
import rustscan as rs  # noqa: E402

REPO = os.environ.get('VERIF_REPO', '/repo')


class Undecided(Exception):
    """The verified text can no longer be produced mechanically (lost anchor, etc.)."""


def parse_path(spec):
    parts = [p.strip() for p in spec.split('::')]
    # re-join pieces that belong to an impl header containing `::` (e.g. impl From<a::B> for C)
    file = parts[0]
    comps = []
    cur = None
    for p in parts[1:]:
        if cur is not None:
            cur += '::' + p
            if cur.count('<') == cur.count('>'):
                comps.append(cur)
                cur = None
            continue
        if p.count('<') != p.count('>'):
            cur = p
            continue
        comps.append(p)
    path = []
    for c in comps:
        m = re.match(r'(impl)\b(.*)', c)
        if m:
            path.append(('impl', rs.norm_ws(c)))
            continue
        m = re.match(r'(fn|struct|enum|trait|type|mod|const)\s+(\w+)$', c)
        if m:
            path.append((m.group(1), m.group(2)))
        else:
            path.append(('fn', c))
    return file, path


_SRC_CACHE = {}


def load_src(rel):
    if rel not in _SRC_CACHE:
        m = re.match(r'crate:([\w-]+)/(.*)$', rel)
        if m:
            root, ver = registry_src(m.group(1))
            p = os.path.join(root, m.group(2))
        else:
            p = os.path.join(REPO, rel)
        if not os.path.exists(p):
            raise Undecided('lost anchor: file %s' % rel)
        src = open(p, encoding='utf-8').read()
        _SRC_CACHE[rel] = (src, rs.code_mask(src))
    return _SRC_CACHE[rel]


def get_item(spec):
    file, path = parse_path(spec)
    src, kind = load_src(file)
    try:
        it = rs.find_item(src, kind, path)
    except rs.ScanError as e:
        raise Undecided('lost anchor: %s (%s)' % (spec, e))
    return file, src, kind, it


# ------------------------------------------------------------------ rewrite rules

class Log:
    def __init__(self):
        self.rules = {}
        self.taken = []
        self.notes = []

    def hit(self, rule, n=1, where=''):
        if n:
            self.rules.setdefault(rule, []).append({'sites': n, 'where': where})


def strip_comments(text):
    """Drop doc comments and ordinary comments from taken text (R0) but keep line structure."""
    kind = rs.code_mask(text)
    out = []
    for i, ch in enumerate(text):
        if kind[i] == 'k':
            if ch == '\n':
                out.append(ch)
        else:
            out.append(ch)
    return ''.join(out)


def rule_r0_attrs(attrs, keep_derive, log, where):
    """Reduce attributes: keep only an allowed derive list."""
    out = []
    m = re.search(r'#\[derive\(([^)]*)\)\]', attrs)
    if m:
        have = [d.strip() for d in m.group(1).split(',') if d.strip()]
        kept = [d for d in have if d in keep_derive]
        if kept:
            out.append('#[derive(%s)]' % ', '.join(kept))
        log.hit('R0.derive', 1, '%s: %s -> %s' % (where, have, kept))
    return '\n'.join(out) + ('\n' if out else '')


def rule_r1_break(body, log, where):
    """fn whose tail expression is `loop {..}`: `break E;` at that loop's depth -> `return E;`"""
    kind = rs.code_mask(body)
    # body starts with '{'
    inner_end = len(body) - 1
    # tail loop: last code token before the closing brace is '}' of a `loop`
    loops = [l for l in rs.find_loops(body, kind, 1, inner_end) if l[0] == 'loop']
    n = 0
    for kw, s, bo in loops:
        be = rs.match_close(body, kind, bo)
        tail = body[be + 1:inner_end].strip()
        if tail != '':
            continue
        # it is the tail expression; rewrite breaks with value not nested in inner loops
        inner = rs.find_loops(body, kind, bo + 1, be)
        inner_ranges = [(b, rs.match_close(body, kind, b)) for _, _, b in inner]
        edits = []
        for ms, me, m in rs.find_code(body, kind, r'\bbreak\s+(?!;)(?![\'])', bo + 1, be):
            if any(a < ms < b for a, b in inner_ranges):
                continue
            edits.append((ms, ms + len('break')))
        for a, b in reversed(edits):
            body = body[:a] + 'return' + body[b:]
            n += 1
    log.hit('R1.break_value', n, where)
    return body


def rule_r2_underscore_closure(body, log, where):
    kind = rs.code_mask(body)
    n = 0
    out = body
    for a, b in reversed(rs.find_closures(body, kind, 0, len(body))):
        head = body[a:b]
        if re.fullmatch(r'\|\s*_\s*\|', head):
            out = out[:a] + '|_e|' + out[b:]
            n += 1
    log.hit('R2.closure_underscore', n, where)
    return out


def rule_r3_macros(body, log, where, fname):
    kind = rs.code_mask(body)
    edits = []
    for s, e, m in rs.find_code(body, kind, r'\b(debug|info|trace|warn|error|eprintln|println|eprint|print)!\s*\(', 0, len(body)):
        close = rs.match_close(body, kind, e - 1)
        edits.append((s, close + 1, '()', 'R3.log_macro'))
    k = 0
    for s, e, m in rs.find_code(body, kind, r'\b(panic|unreachable|todo|unimplemented)!\s*\(', 0, len(body)):
        close = rs.match_close(body, kind, e - 1)
        inner = body[e:close]
        if inner.strip() == '':
            continue
        k += 1
        edits.append((s, close + 1, '%s!("%s#%d")' % (m.group(1) if m.group(1) != 'todo' else 'panic', fname, k), 'R3.panic_fmt'))
    edits.sort()
    counts = {}
    for s, e, new, rule in reversed(edits):
        body = body[:s] + new + body[e:]
        counts[rule] = counts.get(rule, 0) + 1
    for r, n in counts.items():
        log.hit(r, n, where)
    return body


def rule_r8_result_combinators(body, log, where):
    """R8a: `E.and_then(|_| B)`  ->  `match E { Ok(_) => B, Err(__e) => Err(__e) }`           (std: Result::and_then)
       R8b: `X.iter().zip(Y.iter()).try_for_each(|(l, r)| F)`  ->  index loop over the common prefix that stops at the
            first Err (std: Iterator::zip stops at the shorter side, try_for_each at the first error).
       Opt-in (`rules=R8`): lets Verus see code whose closures capture `&mut` (rejected as closures)."""
    n8a = n8b = 0
    # R8b first (it sits inside the and_then closure)
    while True:
        kind = rs.code_mask(body)
        hit = None
        for s_, e_, m in rs.find_code(body, kind, r'\.\s*iter\s*\(\s*\)\s*\.\s*zip\s*\(', 0, len(body)):
            hit = (s_, e_, m); break
        if hit is None:
            break
        s_, e_, m = hit
        x_start = _receiver_start(body, kind, s_)
        x = body[x_start:s_].strip()
        zopen = e_ - 1
        zclose = rs.match_close(body, kind, zopen)
        yexpr = body[zopen + 1:zclose].strip()
        my = re.fullmatch(r'(.+?)\s*\.\s*iter\s*\(\s*\)', yexpr, re.S)
        mt = re.match(r'\s*\.\s*try_for_each\s*\(\s*\|\s*\(\s*(\w+)\s*,\s*(\w+)\s*\)\s*\|', body[zclose + 1:])
        if not my or not mt:
            raise Undecided('rule R8b: unsupported zip shape in %s' % where)
        y = my.group(1).strip()
        topen = body.index('(', zclose + 1)
        tclose = rs.match_close(body, kind, topen)
        fstart = zclose + 1 + mt.end()
        f = body[fstart:tclose].strip()
        n8b += 1
        k = '__k8_%d' % n8b
        r = '__r8_%d' % n8b
        new = ('{ let mut %s: usize = 0; let mut %s = Ok(()); while %s < %s.len() && %s < %s.len() { '
               'let %s = &%s[%s]; let %s = &%s[%s]; match %s { Ok(()) => {}, Err(__e) => { %s = Err(__e); break; } } %s += 1; } %s }'
               % (k, r, k, x, k, y, mt.group(1), x, k, mt.group(2), y, k, f, r, k, r))
        body = body[:x_start] + new + body[tclose + 1:]
    while True:
        kind = rs.code_mask(body)
        hit = None
        for s_, e_, m in rs.find_code(body, kind, r'\.\s*and_then\s*\(\s*\|\s*_e?\s*\|', 0, len(body)):
            hit = (s_, e_, m); break
        if hit is None:
            break
        s_, e_, m = hit
        popen = body.index('(', s_)
        pclose = rs.match_close(body, kind, popen)
        b = body[e_:pclose].strip()
        rstart = _receiver_start(body, kind, s_)
        recv = body[rstart:s_].strip()
        n8a += 1
        body = body[:rstart] + 'match %s { Ok(_) => %s, Err(__e) => Err(__e) }' % (recv, b) + body[pclose + 1:]
    n8c = 0
    while True:
        kind = rs.code_mask(body)
        hit = None
        for s_, e_, m in rs.find_code(body, kind, r'\.\s*and_then\s*\(\s*\|\s*(\w+)\s*\|', 0, len(body)):
            if m.group(1) in ('_', '_e'):
                continue
            hit = (s_, e_, m); break
        if hit is None:
            break
        s_, e_, m = hit
        popen = body.index('(', s_)
        pclose = rs.match_close(body, kind, popen)
        b = body[e_:pclose].strip()
        rstart = _receiver_start(body, kind, s_)
        recv = body[rstart:s_].strip()
        n8c += 1
        body = body[:rstart] + 'match %s { Some(%s) => %s, None => None }' % (recv, m.group(1), b) + body[pclose + 1:]
    n8d = 0
    while True:
        kind = rs.code_mask(body)
        hit = None
        for s_, e_, m in rs.find_code(body, kind, r'\.\s*map_or\s*\(', 0, len(body)):
            hit = (s_, e_, m); break
        if hit is None:
            break
        s_, e_, m = hit
        popen = e_ - 1
        pclose = rs.match_close(body, kind, popen)
        inner = body[popen + 1:pclose]
        mm = re.match(r'\s*(.+?)\s*,\s*\|(.+?)\|\s*(.+)$', inner, re.S)
        if not mm:
            raise Undecided('rule R8d: unsupported map_or shape in %s' % where)
        rstart = _receiver_start(body, kind, s_)
        recv = body[rstart:s_].strip()
        n8d += 1
        body = body[:rstart] + 'match %s { Some(%s) => %s, None => %s }' % (recv, mm.group(2).strip(), mm.group(3).strip(), mm.group(1).strip()) + body[pclose + 1:]
    n8d2 = 0
    while True:
        kind = rs.code_mask(body)
        hit = None
        for s_, e_, m in rs.find_code(body, kind, r'\.\s*map_or_else\s*\(', 0, len(body)):
            hit = (s_, e_, m); break
        if hit is None:
            break
        s_, e_, m = hit
        popen = e_ - 1
        pclose = rs.match_close(body, kind, popen)
        inner = body[popen + 1:pclose]
        # R8d': `E.map_or_else(F, |x| B)` with F a function path  ->  `match E { Some(x) => B, None => F() }`   (std: Option::map_or_else)
        mm = re.match(r'\s*([\w:]+)\s*,\s*\|(.+?)\|\s*(.+)$', inner, re.S)
        if not mm:
            raise Undecided('rule R8d: unsupported map_or_else shape in %s' % where)
        rstart = _receiver_start(body, kind, s_)
        recv = body[rstart:s_].strip()
        n8d2 += 1
        body = body[:rstart] + 'match %s { Some(%s) => %s, None => %s() }' % (recv, mm.group(2).strip(), mm.group(3).strip(), mm.group(1).strip()) + body[pclose + 1:]
    log.hit('R8d.option_map_or_else', n8d2, where)
    n8e = 0
    while True:
        kind = rs.code_mask(body)
        hit = None
        for s_, e_, m in rs.find_code(body, kind, r'\.\s*map\s*\(\s*\|', 0, len(body)):
            popen = body.index('(', s_)
            pclose = rs.match_close(body, kind, popen)
            mu = re.match(r'\s*\.\s*unwrap_or\s*\(', body[pclose + 1:])
            if mu:
                hit = (s_, popen, pclose, mu); break
        if hit is None:
            break
        s_, popen, pclose, mu = hit
        inner = body[popen + 1:pclose]
        mm = re.match(r'\s*\|(.+?)\|\s*(.+)$', inner, re.S)
        uopen = pclose + 1 + mu.end() - 1
        uclose = rs.match_close(body, kind, uopen)
        dflt = body[uopen + 1:uclose].strip()
        rstart = _receiver_start(body, kind, s_)
        recv = body[rstart:s_].strip()
        n8e += 1
        body = body[:rstart] + 'match %s { Some(%s) => %s, None => %s }' % (recv, mm.group(1).strip(), mm.group(2).strip(), dflt) + body[uclose + 1:]
    log.hit('R8e.option_map_unwrap_or', n8e, where)
    log.hit('R8c.option_and_then', n8c, where)
    log.hit('R8d.option_map_or', n8d, where)
    log.hit('R8a.and_then', n8a, where)
    log.hit('R8b.zip_try_for_each', n8b, where)
    return body


R9_DIRECTIONS = {}   # placeholder -> 'true' / 'false': direction of the n-th R9 scan of the function being extracted


def rule_r9_iter_first(body, log, where):
    R9_DIRECTIONS.clear()
    """R9: `X.iter()[.rev()] (.map(F) | .skip_while(P) | .filter(P))* .next()`  ->  an index loop over X (backwards with
       `.rev()`) that applies the stages to each element in order and stops at the first element that passes all of them
       (std: lazy adapters; `find_map(F)` as the last stage is `map(F)` followed by the first result that is not `None`;
       `skip_while(P)` followed by `next()` yields the first element for which P is false, `filter(P)` the
       first for which it is true; `map(F)` applies F). Closures become `{ let <param> = <element>; <body> }`, a path `F`
       becomes `F(<element>)` (`P(&<element>)` for predicates). Opt-in (`rules=R9`): Verus has no iterator adapters.
       In the injected contract lines of the function the placeholder `$REV9_<n>` stands for the direction of the n-th scan
       (`true` with `.rev()`), so that a contract can be stated for either direction and the postcondition decides."""
    n9 = 0
    search_from = 0
    while True:
        kind = rs.code_mask(body)
        hit = None
        for s_, e_, m in rs.find_code(body, kind, r'\.\s*iter\s*\(\s*\)', search_from, len(body)):
            hit = (s_, e_); break
        if hit is None:
            break
        s_, e_ = hit
        pos = e_
        stages = []
        rev = False
        end = None
        while True:
            m = re.match(r'\s*\.\s*(\w+)\s*\(', body[pos:])
            if not m:
                break
            popen = pos + m.end() - 1
            pclose = rs.match_close(body, kind, popen)
            name = m.group(1)
            arg = body[popen + 1:pclose].strip()
            if name == 'rev' and arg == '' and not stages and not rev:
                rev = True
            elif name in ('map', 'skip_while', 'filter') and arg:
                stages.append((name, arg))
            elif name == 'next' and arg == '':
                end = pclose + 1
                break
            elif name == 'find_map' and arg:
                # find_map(F) = map(F), then the first result that is not None, unwrapped again by the Option it already is
                stages.append(('find_map', arg))
                end = pclose + 1
                break
            else:
                break
            pos = pclose + 1
        if end is None:
            search_from = e_
            continue
        x_start = _receiver_start(body, kind, s_)
        x = body[x_start:s_].strip()
        n9 += 1
        k = '__k9_%d' % n9
        r = '__r9_%d' % n9

        def apply(arg, elem, by_ref):
            mc = re.match(r'\|\s*([^|]+?)\s*\|\s*(.*)$', arg, re.S)
            if mc:
                return '{ let %s = %s%s; %s }' % (mc.group(1), '&' if by_ref else '', elem, mc.group(2).strip())
            if re.fullmatch(r'[\w:]+', arg):
                return '%s(%s%s)' % (arg, '&' if by_ref else '', elem)
            raise Undecided('rule R9: unsupported stage argument `%s` in %s' % (arg, where))

        cur = '__x9_%d_0' % n9
        code = ''
        closers = ''
        for j, (name, arg) in enumerate(stages):
            if name == 'map':
                nxt = '__x9_%d_%d' % (n9, j + 1)
                code += 'let %s = %s; ' % (nxt, apply(arg, cur, False))
                cur = nxt
            elif name == 'find_map':
                nxt = '__x9_%d_%d' % (n9, j + 1)
                code += 'let %s = %s; if !(Option::is_none(&%s)) { %s = %s; break; } ' % (nxt, apply(arg, cur, False), nxt, r, nxt)
                cur = None
            elif name == 'skip_while':
                code += 'if !(%s) { ' % apply(arg, cur, True)
                closers += '} '
            else:
                code += 'if %s { ' % apply(arg, cur, True)
                closers += '} '
        if cur is not None:
            code += '%s = Some(%s); break; ' % (r, cur)
        code += closers
        if rev:
            head = 'let mut %s: usize = %s.len(); let mut %s = None; while %s > 0 { %s -= 1; let __x9_%d_0 = &%s[%s]; ' % (k, x, r, k, k, n9, x, k)
        else:
            head = 'let mut %s: usize = 0; let mut %s = None; while %s < %s.len() { let __x9_%d_0 = &%s[%s]; %s += 1; ' % (k, r, k, x, n9, x, k, k)
        new = '{ ' + head + code + '} ' + r + ' }'
        R9_DIRECTIONS['$REV9_%d' % n9] = 'true' if rev else 'false'
        body = body[:x_start] + new + body[end:]
        search_from = x_start + len(new)
    log.hit('R9.iter_first', n9, where)
    return body


def rule_r11_r12_zip_collect(body, log, where):
    """R12: `for (A, B) in X.zip(Y) { S }`  ->  X and Y evaluated once, in that order, then an index loop over their common prefix
            binding A, B to the k-th elements (std: Iterator::zip stops at the shorter side).
       R11: `X.map(|a| F).collect::<Result<Vec<_>>>()?`  ->  X evaluated once, then an index loop that evaluates F for each element
            in order, returns the first `Err` from the enclosing function and otherwise yields the Vec of the `Ok` values
            (std: FromIterator for Result stops at the first error; `?` returns it).
       X and Y are calls whose shims return the items as a Vec. Opt-in (`rules=R11` / `rules=R12`): Verus rejects closures that
       capture `&mut` and has no zip adapter."""
    n12 = 0
    while True:
        kind = rs.code_mask(body)
        hit = None
        for s_, e_, m in rs.find_code(body, kind, r'\bfor\s*\(\s*(\w+)\s*,\s*(\w+)\s*\)\s*in\s+', 0, len(body)):
            hit = (s_, e_, m); break
        if hit is None:
            break
        s_, e_, m = hit
        # the iterated expression runs up to the `{` of the loop body at depth 0
        j = e_
        depth = 0
        while j < len(body):
            if kind[j] == 'c':
                c = body[j]
                if c in '([':
                    depth += 1
                elif c in ')]':
                    depth -= 1
                elif c == '{' and depth == 0:
                    break
            j += 1
        expr = body[e_:j].strip()
        mz = None
        ek = rs.code_mask(expr)
        for zs, ze, zm in rs.find_code(expr, ek, r'\.\s*zip\s*\(', 0, len(expr)):
            zc = rs.match_close(expr, ek, ze - 1)
            if expr[zc + 1:].strip() == '':
                mz = (zs, ze, zc)
        if mz is None:
            raise Undecided('rule R12: unsupported tuple-pattern for loop in %s' % where)
        x = expr[:mz[0]].strip()
        y = expr[mz[1]:mz[2]].strip()
        bclose = rs.match_close(body, kind, j)
        inner = body[j + 1:bclose]
        n12 += 1
        a, b, k = '__z12a_%d' % n12, '__z12b_%d' % n12, '__k12_%d' % n12
        new = ('{ let %s = %s; let %s = %s; let mut %s: usize = 0; while %s < %s.len() && %s < %s.len() { let %s = %s[%s]; let %s = %s[%s]; %s += 1; %s } }'
               % (a, x, b, y, k, k, a, k, b, m.group(1), a, k, m.group(2), b, k, k, inner))
        body = body[:s_] + new + body[bclose + 1:]
    n11 = 0
    while True:
        kind = rs.code_mask(body)
        hit = None
        for s_, e_, m in rs.find_code(body, kind, r'\.\s*map\s*\(\s*\|\s*(\w+)\s*\|', 0, len(body)):
            popen = body.index('(', s_)
            pclose = rs.match_close(body, kind, popen)
            mc = re.match(r'\s*\.\s*collect\s*::\s*<\s*Result\s*<\s*Vec\s*<\s*_\s*>\s*>\s*>\s*\(\s*\)\s*\?', body[pclose + 1:])
            if mc:
                hit = (s_, e_, m, pclose, pclose + 1 + mc.end()); break
        if hit is None:
            break
        s_, e_, m, pclose, end = hit
        f = body[e_:pclose].strip()
        x_start = _receiver_start(body, kind, s_)
        x = body[x_start:s_].strip()
        n11 += 1
        src, acc, k, e = '__c11s_%d' % n11, '__c11_%d' % n11, '__k11_%d' % n11, '__e11_%d' % n11
        new = ('{ let %s = %s; let mut %s = Vec::new(); let mut %s: usize = 0; while %s < %s.len() { let %s = %s[%s]; %s += 1; let %s = %s; '
               'match %s { Ok(__v11) => { %s.push(__v11); } Err(__err11) => { return Err(__err11); } } } %s }'
               % (src, x, acc, k, k, src, m.group(1), src, k, k, e, f, e, acc, acc))
        body = body[:x_start] + new + body[end:]
    log.hit('R12.for_zip', n12, where)
    log.hit('R11.map_collect_result', n11, where)
    return body


def rule_r13_continue(body, log, where):
    """R13: inside a loop body, a statement `if C { continue; }` that is a direct child of the loop body becomes
       `if !(C) { <the remaining statements of the loop body> }` (same control flow: `continue` skips exactly those statements).
       Opt-in (`rules=R13`): Verus rejects `continue` in `for` loops."""
    n = 0
    while True:
        kind = rs.code_mask(body)
        hit = None
        for s_, e_, m in rs.find_code(body, kind, r'\bif\s+([^{};]+?)\s*\{\s*continue\s*;\s*\}', 0, len(body)):
            hit = (s_, e_, m); break
        if hit is None:
            break
        s_, e_, m = hit
        # innermost loop body containing the statement
        best = None
        for kw, ks, bo in rs.find_loops(body, kind, 0, len(body)):
            bc = rs.match_close(body, kind, bo)
            if bo < s_ and e_ <= bc and (best is None or bo > best[0]):
                best = (bo, bc)
        if best is None:
            raise Undecided('rule R13: `continue` outside a loop body in %s' % where)
        bo, bc = best
        depth = 0
        for j in range(bo + 1, s_):
            if kind[j] == 'c':
                if body[j] in '{([':
                    depth += 1
                elif body[j] in '})]':
                    depth -= 1
        if depth != 0:
            raise Undecided('rule R13: `continue` is not a direct child of its loop body in %s' % where)
        rest = body[e_:bc]
        body = body[:s_] + 'if !(%s) {' % m.group(1).strip() + rest + '}\n' + body[bc:]
        n += 1
    log.hit('R13.continue', n, where)
    return body


def rule_r14_for_filter_map(body, log, where):
    """R14: `for X in E.filter_map(F) { S }` (F a function path)  ->  `for __y in E { if let Some(X) = F(__y) { S } }`
       (std: filter_map yields, in order, the payloads of the `Some` results of F). Opt-in (`rules=R14`)."""
    n = 0
    while True:
        kind = rs.code_mask(body)
        hit = None
        for s_, e_, m in rs.find_code(body, kind, r'\bfor\s+(\w+)\s+in\s+', 0, len(body)):
            j = e_
            depth = 0
            while j < len(body):
                if kind[j] == 'c':
                    c = body[j]
                    if c in '([':
                        depth += 1
                    elif c in ')]':
                        depth -= 1
                    elif c == '{' and depth == 0:
                        break
                j += 1
            expr = body[e_:j].rstrip()
            mf = re.search(r'\.\s*filter_map\s*\(\s*([\w:]+)\s*\)$', expr)
            if mf:
                hit = (s_, e_, m, j, expr[:mf.start()].strip(), mf.group(1)); break
        if hit is None:
            break
        s_, e_, m, j, src_expr, f = hit
        bclose = rs.match_close(body, kind, j)
        n += 1
        y = '__y14_%d' % n
        inner = body[j + 1:bclose]
        new = 'for %s in %s { if let Some(%s) = %s(%s) {%s} }' % (y, src_expr, m.group(1), f, y, inner)
        body = body[:s_] + new + body[bclose + 1:]
    log.hit('R14.for_filter_map', n, where)
    return body


def rule_r15_or_else_map_collect(body, log, where):
    """R8f: `A.or_else(|| B)`  ->  `match A { Some(__v) => Some(__v), None => B }`                      (std: Option::or_else)
       R8g: `A.or(B)`  ->  `{ let a = A; let b = B; match a { Some(v) => Some(v), None => b } }`          (std: Option::or, eager)
       R15: `X.iter().map(|pat| F).collect()`  ->  X iterated once with `for pat in X.iter()`, every F inserted, in iteration
            order, into a fresh collection `collect_new()` through `collect_insert` (std: FromIterator for an insertion-ordered map is
            insert-in-order; the result type is fixed by the enclosing function's return type).
       Opt-in (`rules=R15`)."""
    n8f = 0
    while True:
        kind = rs.code_mask(body)
        hit = None
        for s_, e_, m in rs.find_code(body, kind, r'\.\s*or_else\s*\(\s*\|\s*\|', 0, len(body)):
            hit = (s_, e_)      # the LAST one: in a chain `A.or_else(..).or_else(..)` its receiver is the call chain before it
        if hit is None:
            break
        s_, e_ = hit
        popen = body.index('(', s_)
        pclose = rs.match_close(body, kind, popen)
        b = body[e_:pclose].strip()
        rstart = _receiver_start(body, kind, s_)
        recv = body[rstart:s_].strip()
        n8f += 1
        body = body[:rstart] + 'match %s { Some(__v8f) => Some(__v8f), None => %s }' % (recv, b) + body[pclose + 1:]
    n8g = 0
    while True:
        kind = rs.code_mask(body)
        hit = None
        for s_, e_, m in rs.find_code(body, kind, r'\.\s*or\s*\(', 0, len(body)):
            hit = (s_, e_)      # the last one
        if hit is None:
            break
        s_, e_ = hit
        popen = e_ - 1
        pclose = rs.match_close(body, kind, popen)
        b = body[popen + 1:pclose].strip()
        rstart = _receiver_start(body, kind, s_)
        recv = body[rstart:s_].strip()
        n8g += 1
        # R8g: `A.or(B)` evaluates A, then B, then picks: both are evaluated, in that order (std: Option::or is eager)
        body = body[:rstart] + '{ let __a8g_%d = %s; let __b8g_%d = %s; match __a8g_%d { Some(__v8g) => Some(__v8g), None => __b8g_%d } }' % (n8g, recv, n8g, b, n8g, n8g) + body[pclose + 1:]
    log.hit('R8g.option_or', n8g, where)
    n15 = 0
    while True:
        kind = rs.code_mask(body)
        hit = None
        for s_, e_, m in rs.find_code(body, kind, r'\.\s*iter\s*\(\s*\)\s*\.\s*map\s*\(\s*\|\s*([^|]+?)\s*\|', 0, len(body)):
            popen = body.index('(', body.index('map', s_))
            pclose = rs.match_close(body, kind, popen)
            mc = re.match(r'\s*\.\s*collect\s*\(\s*\)', body[pclose + 1:])
            if mc:
                hit = (s_, e_, m, pclose, pclose + 1 + mc.end()); break
        if hit is None:
            break
        s_, e_, m, pclose, end = hit
        f = body[e_:pclose].strip()
        x_start = _receiver_start(body, kind, s_)
        x = body[x_start:s_].strip()
        n15 += 1
        acc = '__acc15_%d' % n15
        new = ('{ let mut %s = collect_new(); for %s in %s.iter() { let __item15 = %s; collect_insert(&mut %s, __item15); } %s }'
               % (acc, m.group(1), x, f, acc, acc))
        body = body[:x_start] + new + body[end:]
    log.hit('R8f.option_or_else', n8f, where)
    log.hit('R15.iter_map_collect', n15, where)
    return body


def rule_r5_mut_self(header, body, log, where):
    """`fn f(mut self, ..) { B }` -> `fn f(self, ..) { let mut self_ = self; B[self := self_] }`
       (Verus: "mut self" unsupported). Same moves, same mutations."""
    m = re.search(r'\(\s*mut\s+self\b', header)
    if not m:
        return header, body
    header = header[:m.start()] + '(self' + header[m.end():]
    kind = rs.code_mask(body)
    out = []
    last = 0
    n = 0
    for s, e, _ in rs.find_code(body, kind, r'\bself\b', 0, len(body)):
        out.append(body[last:s])
        out.append('self_')
        last = e
        n += 1
    out.append(body[last:])
    body = ''.join(out)
    assert body[0] == '{'
    body = '{ let mut self_ = self;' + body[1:]
    log.hit('R5.mut_self', 1, '%s (%d uses of self renamed)' % (where, n))
    return header, body


def rule_r7_rename_params(header, body, names, log, where, spec):
    """Alpha-rename the (non-self) parameters, by position, to the names the contract uses, so that a renamed
       parameter in the source does not orphan the contract.  A changed parameter count is a lost anchor."""
    hk = rs.code_mask(header)
    po = _params_open(header, hk)
    pc = rs.match_close(header, hk, po)
    plist = header[po + 1:pc]
    parts, depth, cur = [], 0, ''
    for ch in plist:
        if ch in '<([':
            depth += 1
        elif ch in '>)]':
            depth -= 1
        if ch == ',' and depth == 0:
            parts.append(cur); cur = ''
        else:
            cur += ch
    if cur.strip():
        parts.append(cur)
    real = []
    for prt in parts:
        m = re.match(r'\s*(mut\s+)?([a-z_]\w*)\s*:', prt)
        if m and m.group(2) != 'self':
            real.append(m.group(2))
        elif re.match(r'\s*(&\s*(\'\w+\s+)?)?(mut\s+)?self\b', prt):
            continue
        else:
            raise Undecided('lost anchor: parameter pattern `%s` of %s is not a plain identifier' % (prt.strip(), spec))
    if len(real) != len(names):
        raise Undecided('lost anchor: %s has %d parameters, contract names %d' % (spec, len(real), len(names)))
    ren = [(a, b) for a, b in zip(real, names) if a != b]
    if not ren:
        return header, body
    # two-phase rename to avoid clashes
    def rename(text, mapping):
        kind = rs.code_mask(text)
        out, last = [], 0
        pat = r'(?<![\w.])(' + '|'.join(re.escape(a) for a, _ in mapping) + r')\b'
        md = dict(mapping)
        for s_, e_, m_ in rs.find_code(text, kind, pat, 0, len(text)):
            out.append(text[last:s_]); out.append(md[m_.group(1)]); last = e_
        out.append(text[last:])
        return ''.join(out)
    tmp = [(a, '__r7_%d' % i) for i, (a, b) in enumerate(ren)]
    fin = [('__r7_%d' % i, b) for i, (a, b) in enumerate(ren)]
    new_params = rename(rename(header[po:pc + 1], tmp), fin)
    header = header[:po] + new_params + header[pc + 1:]
    body = rename(rename(body, tmp), fin)
    log.hit('R7.rename_params', len(ren), '%s: %s' % (where, ren))
    return header, body


_BIND_PATS = [
    r'\blet\s+(?:mut\s+)?([a-z_]\w*)\b(?!\s*[:(]{2})',                 # let x / let mut x
    r'\blet\s+(?:mut\s+)?\(([^()]*)\)\s*=',                             # let (a, b) =
    r'\bfor\s+([a-z_]\w*)\s+in\b',                                       # for x in
    r'\bfor\s+\(([^()]*)\)\s+in\b',                                      # for (a, b) in
    r'\b(?:if|while)\s+let\s+Some\(\s*([a-z_]\w*)\s*\)\s*=',            # if let Some(x) =
]


def call_names(body):
    """Names of the functions / methods / macros called in a body (identifier directly followed by `(` or `!(`)."""
    kind = rs.code_mask(body)
    out = []
    for s_, e_, m in rs.find_code(body, kind, r'\b([A-Za-z_]\w*)\s*!?\s*\(', 0, len(body)):
        nm = m.group(1)
        if nm in ('if', 'while', 'match', 'for', 'return', 'loop', 'let', 'in', 'as', 'mut', 'ref') or nm[0].isupper():
            continue      # keywords; constructors / enum variants / tuple structs are not library calls
        if nm not in out:
            out.append(nm)
    return sorted(out)


def local_names(body):
    """Distinct names bound by simple let / for / if-let patterns, in order of first binding."""
    kind = rs.code_mask(body)
    found = []
    for pat in _BIND_PATS:
        for s_, e_, m in rs.find_code(body, kind, pat, 0, len(body)):
            g = m.group(1)
            for nm in re.findall(r'[a-z_]\w*', g):
                if nm in ('mut', 'ref', '_', 'ghost', 'tracked'):
                    continue
                found.append((s_, nm))
    found.sort()
    out = []
    for _, nm in found:
        if nm not in out:
            out.append(nm)
    return out


def rule_r7b_rename_locals(body, pinned, log, where):
    """Alpha-rename local bindings, by order of first binding, to the names the contract was written against.
       Applies only when the number of distinct simple bindings is unchanged; otherwise the body is left alone."""
    cur = local_names(body)
    if cur == pinned or len(cur) != len(pinned):
        return body
    ren = [(a, b) for a, b in zip(cur, pinned) if a != b]
    # never rename onto a name that is otherwise in use
    for a, b in ren:
        if b in cur and (b, [x for x, y in ren if y == b]) and b not in [x for x, _ in ren]:
            return body
    kind = rs.code_mask(body)
    tmp = {a: '__r7b_%d' % i for i, (a, b) in enumerate(ren)}
    fin = {'__r7b_%d' % i: b for i, (a, b) in enumerate(ren)}

    def rename(text, mapping):
        k = rs.code_mask(text)
        out, last = [], 0
        pat = r'(?<![\w.])(' + '|'.join(re.escape(a) for a in mapping) + r')\b'
        for s_, e_, m_ in rs.find_code(text, k, pat, 0, len(text)):
            out.append(text[last:s_]); out.append(mapping[m_.group(1)]); last = e_
        out.append(text[last:])
        return ''.join(out)
    body = rename(rename(body, tmp), fin)
    log.hit('R7b.rename_locals', len(ren), '%s: %s' % (where, ren))
    return body


def rule_r6_mut_param(header, body, log, where):
    """`fn f(.., mut x: T, ..) { B }` -> `fn f(.., x: T, ..) { let mut x_ = x; B[x := x_] }` (opt-in, `rules=R6`):
       lets loop invariants name the parameter's entry value.  Same moves, same mutations."""
    names = re.findall(r'(?<![&\w])mut\s+([a-z_]\w*)\s*:', header)
    names = [n for n in names if n != 'self']
    if not names:
        return header, body
    for n in names:
        header = re.sub(r'(?<![&\w])mut\s+' + n + r'(\s*:)', n + r'\1', header, count=1)
        kind = rs.code_mask(body)
        out, last, cnt = [], 0, 0
        for s_, e_, _ in rs.find_code(body, kind, r'(?<![\w.])' + n + r'\b', 0, len(body)):
            out.append(body[last:s_]); out.append(n + '_'); last = e_; cnt += 1
        out.append(body[last:])
        body = ''.join(out)
        body = '{ let mut %s_ = %s;' % (n, n) + body[1:]
        log.hit('R6.mut_param', 1, '%s: %s (%d uses renamed)' % (where, n, cnt))
    return header, body


def _receiver_start(body, kind, dot):
    """Walk back from the '.' of `.any(` over a postfix chain to the start of the receiver."""
    i = dot
    while i > 0:
        j = i - 1
        while j >= 0 and body[j] in ' \t\r\n':
            j -= 1
        c = body[j]
        if c in ')]':
            # find matching open
            depth = 0
            k = j
            while k >= 0:
                if kind[k] == 'c':
                    if body[k] in ')]}':
                        depth += 1
                    elif body[k] in '([{':
                        depth -= 1
                        if depth == 0:
                            break
                k -= 1
            i = k
            continue
        if c.isalnum() or c == '_':
            k = j
            while k >= 0 and (body[k].isalnum() or body[k] == '_'):
                k -= 1
            i = k + 1
            # preceded by '.' or '::' ?
            p = i - 1
            while p >= 0 and body[p] in ' \t\r\n':
                p -= 1
            if p >= 0 and body[p] == '.':
                i = p
                continue
            if p >= 1 and body[p - 1:p + 1] == '::':
                i = p - 1
                continue
            return i
        if c == '.':
            i = j
            continue
        if c == '?':
            i = j
            continue
        return i
    return i


def rule_r4_any_all(body, log, where):
    """I.any(|p| E) -> { let mut r = false; for p in I { if E { r = true; break; } } r }
       I.all(|p| E) -> { let mut r = true;  for p in I { if !(E) { r = false; break; } } r }"""
    n = 0
    while True:
        kind = rs.code_mask(body)
        hit = None
        for s, e, m in rs.find_code(body, kind, r'\.\s*(any|all)\s*\(\s*\|', 0, len(body)):
            hit = (s, e, m)
            break
        if hit is None:
            break
        s, e, m = hit
        which = m.group(1)
        paren = body.index('(', s)
        close = rs.match_close(body, kind, paren)
        bar1 = e - 1
        bar2 = body.index('|', bar1 + 1)
        param = body[bar1 + 1:bar2].strip()
        mt = re.match(r'^(\w+)\s*:\s*\S.*$', param)
        if mt:
            param = mt.group(1)  # `|x: &T| E`: a `for` pattern takes no type annotation
        expr = body[bar2 + 1:close].strip()
        rstart = _receiver_start(body, kind, s)
        recv = body[rstart:s].strip()
        n += 1
        rv = '__r4_%d' % n
        if which == 'any':
            new = ('({ let mut %s = false; for %s in %s { if %s { %s = true; break; } } %s })'
                   % (rv, param, recv, expr, rv, rv))
        else:
            new = ('({ let mut %s = true; for %s in %s { if !(%s) { %s = false; break; } } %s })'
                   % (rv, param, recv, expr, rv, rv))
        body = body[:rstart] + new + body[close + 1:]
    log.hit('R4.any_all_inline', n, where)
    return body


# ------------------------------------------------------------------ anchors

def anchor_regex(text):
    toks = text.split()
    return r'\s*'.join(re.escape(t) for t in toks)


def find_anchor(body, text, what):
    kind = rs.code_mask(body)
    pat = anchor_regex(text)
    hits = [(s, e) for s, e, _ in rs.find_code_loose(body, kind, pat)] if hasattr(rs, 'find_code_loose') else None
    if hits is None:
        hits = []
        for m in re.finditer(pat, body):
            if kind[m.start()] == 'c':
                hits.append((m.start(), m.end()))
    if len(hits) != 1:
        raise Undecided('lost anchor: %s "%s" matches %d sites' % (what, text, len(hits)))
    return hits[0]


# ------------------------------------------------------------------ template processing

class FnDirective:
    def __init__(self, spec, opts):
        self.spec = spec
        self.opts = opts
        self.ret = None
        self.sigsubs = []
        self.spec_lines = []
        self.loops = {}      # n -> (iter, lines)
        self.closures = {}   # n -> (head, lines)
        self.after = []      # (text, lines, 'after'|'before')
        self.after_loop = {}  # n -> lines (inserted after the closing brace of the n-th loop)
        self.substs = []     # (old, new, count)
        self.norules = set()
        self.params = None    # positional names for the parameters (alpha-renaming, rule R7)
        self.locals = None    # pinned names of the simple local bindings, in order of first binding (rule R7b)
        self.calls = None     # pinned set of function / method names called in the body (new names = unvalidated dependency specs)
        self.loop_end = {}    # n -> lines inserted before the closing brace of the n-th loop body
        self.loop_begin = {}  # n -> lines inserted after the opening brace of the n-th loop body
        self.before_loop = {} # n -> lines inserted before the n-th loop statement
        self.fn_begin = []    # lines inserted right after the opening brace of the function body
        self.ghost_params = []  # ghost (erased) parameters appended to the parameter list (rule R10)
        self.closures_opaque = set()  # closures the contract deliberately leaves without specification (their result is not constrained)
        self.raw = []         # every contract line of the block (spec and body insertions): the obligations named there are undecided when the body becomes a stub


def parse_opts(rest):
    opts = {}
    toks = rest.split()
    keep = []
    for t in toks:
        m = re.match(r'(\w[\w-]*)=(.*)$', t)
        if m and not keep_is_path(keep, t):
            opts[m.group(1)] = m.group(2)
        else:
            keep.append(t)
    return ' '.join(keep), opts


def keep_is_path(keep, t):
    return False


def _apply_fn_full(d, log, fnmap, out_lineno, stub_only=False):
    file, src, kind, it = get_item(d.spec)
    if it.kw != 'fn':
        raise Undecided('lost anchor: %s is not a fn' % d.spec)
    name = it.name
    label = d.opts.get('label', name)
    where = '%s::%s' % (file, name)
    header = strip_comments(it.header).rstrip()
    body = it.body()
    body = strip_comments(body)
    # signature tweaks
    if 'vis' in d.opts:
        header = re.sub(r'^(pub(\s*\([^)]*\))?\s+)?', d.opts['vis'].replace('_', ' ') + ' ' if d.opts['vis'] != 'none' else '', header, count=1)
    else:
        new = re.sub(r'^pub\s*\([^)]*\)', 'pub', header)
        if new != header:
            log.hit('R0.visibility', 1, where)
        header = new
    if 'rename' in d.opts:
        header = re.sub(r'\bfn\s+' + re.escape(name) + r'\b', 'fn ' + d.opts['rename'], header, count=1)
    for old, new in d.sigsubs:
        if header.count(old) != 1:
            raise Undecided('lost anchor: signature text "%s" in %s (%d sites)' % (old, d.spec, header.count(old)))
        header = header.replace(old, new)
    if d.ret:
        # find the top-level `->` of the fn signature: after the parameter list
        hk = rs.code_mask(header)
        po = header.index('(', header.index('fn '))
        # skip generics `<..>` before params: the first '(' after name may be inside generics (Fn(..)); find params paren at angle depth 0
        po = _params_open(header, hk)
        pc = rs.match_close(header, hk, po)
        rest = header[pc + 1:]
        m = re.match(r'(\s*->\s*)(.*?)(\s*(where\b.*)?)$', rest, re.S)
        if not m:
            raise Undecided('lost anchor: %s has no return type for //@ ret' % d.spec)
        header = header[:pc + 1] + m.group(1) + '(' + d.ret + ': ' + m.group(2).strip() + ')' + m.group(3)
    if d.params is not None:
        header, body = rule_r7_rename_params(header, body, d.params, log, where, d.spec)
    if d.ghost_params:
        hk = rs.code_mask(header)
        po = _params_open(header, hk)
        pc = rs.match_close(header, hk, po)
        inner = header[po + 1:pc].rstrip()
        sep = '' if inner == '' or inner.endswith(',') else ', '
        header = header[:po + 1] + inner + sep + ', '.join(d.ghost_params) + header[pc:]
        log.hit('R10.ghost_param', len(d.ghost_params), where)
    if stub_only:
        # the body could not be brought into the verified text (lost anchor / rule failure): keep the function as an assumed
        # contract so that the rest of the unit stays decidable; the caller reports its obligations as undecided
        pre = d.opts.get('pre', '').replace('~', ' ')
        text = '#[verifier::external_body] ' + (pre + ' ' if pre else '') + header + '\n' + '\n'.join(d.spec_lines) + ('\n' if d.spec_lines else '') + '{ unimplemented!() }\n'
        nlines = text.count('\n')
        first_line = src.count('\n', 0, it.sig_start) + 1
        fnmap.append({'label': label, 'fn': name, 'source': file, 'source_line': first_line,
                      'gen_first': out_lineno, 'gen_last': out_lineno + nlines - 1, 'body_first': out_lineno + nlines - 1,
                      'spec': d.spec, 'new_calls': [], 'isolated': stub_only, 'gen_fn': d.opts.get('rename', name),
                      'obls': sorted(set(re.findall(r'//\s*OBL\s+(\S+)', '\n'.join(d.raw))))})
        return text
    new_calls = []
    if d.calls is not None:
        new_calls = [c for c in call_names(body) if c not in d.calls]
    if d.locals is not None:
        body = rule_r7b_rename_locals(body, d.locals, log, where)
    # body rewrites (closed list)
    header, body = rule_r5_mut_self(header, body, log, where)
    if 'R6' in d.opts.get('rules', ''):
        header, body = rule_r6_mut_param(header, body, log, where)
    if 'R1' not in d.norules:
        body = rule_r1_break(body, log, where)
    body = rule_r2_underscore_closure(body, log, where)
    body = rule_r3_macros(body, log, where, name)
    # R8f/R8g/R15 first: their receivers must still be plain method chains
    if 'R15' in d.opts.get('rules', ''):
        body = rule_r15_or_else_map_collect(body, log, where)
    if 'R8' in d.opts.get('rules', ''):
        body = rule_r8_result_combinators(body, log, where)
    if 'R9' in d.opts.get('rules', ''):
        body = rule_r9_iter_first(body, log, where)
    if 'R13' in d.opts.get('rules', ''):
        body = rule_r13_continue(body, log, where)
    if 'R14' in d.opts.get('rules', ''):
        body = rule_r14_for_filter_map(body, log, where)
    if 'R11' in d.opts.get('rules', '') or 'R12' in d.opts.get('rules', ''):
        body = rule_r11_r12_zip_collect(body, log, where)
    if 'R4' not in d.norules:
        body = rule_r4_any_all(body, log, where)
    # the loop / exit structure after the rewrite rules (a new `.any(..)` or `.collect()` is a new loop the template has no contract for)
    shape = loop_shape(body)
    # collect insertions on the (rewritten) body, all computed against the same text
    bk = rs.code_mask(body)
    edits = []  # (start, end, text): insertion when start == end, else replacement
    for old, new, count in d.substs:
        if isinstance(old, tuple):
            # `subst-re`: a regular expression over the code text (whitespace in the pattern matches any whitespace), groups usable as \1.. in the replacement
            old = old[1]
            ms = [m for m in re.finditer(re.sub(r' +', r'\\s*', old), body) if bk[m.start()] == 'c']
            hits = [(m.start(), m.end()) for m in ms]
            news = [m.expand(new) for m in ms]
        else:
            hits = [(m.start(), m.end()) for m in re.finditer(anchor_regex(old), body) if bk[m.start()] == 'c']
            news = [new] * len(hits)
        if count >= 0 and len(hits) != count:
            raise Undecided('lost anchor: subst "%s" in %s matches %d sites, expected %d' % (old, d.spec, len(hits), count))
        for (a, b), nw in zip(hits, news):
            edits.append((a, b, nw))
        log.hit('R-local.subst', len(hits), '%s: "%s" => "%s"' % (where, old, new))
    loops = rs.find_loops(body, bk, 1, len(body) - 1)
    for n, (itname, lines) in d.loops.items():
        if n < 1 or n > len(loops):
            raise Undecided('lost anchor: loop %d of %s (has %d loops)' % (n, d.spec, len(loops)))
        kw, ks, bo = loops[n - 1]
        clause = '\n' + '\n'.join(lines) + '\n'
        if itname:
            if kw != 'for':
                raise Undecided('lost anchor: loop %d of %s is `%s`, not `for`' % (n, d.spec, kw))
            m = re.compile(r'\bin\b').search(body, ks, bo)
            # first ` in ` at depth 0 after the pattern
            edits.append((m.end(), m.end(), ' ' + itname + ':'))
        edits.append((bo, bo, clause))
    for n, lines in list(d.loop_end.items()) + [(-k, v) for k, v in d.loop_begin.items()]:
        begin = n < 0
        n = abs(n)
        if n < 1 or n > len(loops):
            raise Undecided('lost anchor: loop %d of %s (has %d loops)' % (n, d.spec, len(loops)))
        kw, ks, bo = loops[n - 1]
        be = rs.match_close(body, bk, bo)
        pos = bo + 1 if begin else be
        edits.append((pos, pos, '\n' + '\n'.join(lines) + '\n'))
    if d.fn_begin:
        edits.append((1, 1, '\n' + '\n'.join(d.fn_begin) + '\n'))
    for n, lines in d.before_loop.items():
        if n < 1 or n > len(loops):
            raise Undecided('lost anchor: loop %d of %s (has %d loops)' % (n, d.spec, len(loops)))
        kw, ks, bo = loops[n - 1]
        # a labelled loop (`'a: loop`) keeps its label with the loop
        edits.append((ks, ks, '\n'.join(lines) + '\n'))
    for n, lines in d.after_loop.items():
        if n < 1 or n > len(loops):
            raise Undecided('lost anchor: loop %d of %s (has %d loops)' % (n, d.spec, len(loops)))
        kw, ks, bo = loops[n - 1]
        be = rs.match_close(body, bk, bo)
        edits.append((be + 1, be + 1, '\n' + '\n'.join(lines) + '\n'))
    closures = rs.find_closures(body, bk, 1, len(body) - 1)
    # a closure that the contract does not annotate is an unspecified dependency: Verus would accept it and know nothing about its
    # result, and a harmless `.map(|d| d.clone())` would then fail a postcondition.  Undecided (the function is kept as a stub), never an alarm.
    for n, (head, lines) in d.closures.items():
        if n < 1 or n > len(closures):
            raise Undecided('lost anchor: closure %d of %s (has %d closures)' % (n, d.spec, len(closures)))
        a, b = closures[n - 1]
        clause = head + ('\n' + '\n'.join(lines) + '\n' if lines else ' ')
        edits.append((a, b, clause))
        if lines:
            # a closure with a specification needs a block body: brace an expression body (up to the `,` or the closing bracket that ends it)
            j = b
            while j < len(body) and body[j] in ' \t\n':
                j += 1
            if j < len(body) and body[j] != '{':
                e_ = j
                depth = 0
                while e_ < len(body):
                    ch = body[e_]
                    if bk[e_] == 'c':
                        if ch in '([{':
                            depth += 1
                        elif ch in ')]}':
                            if depth == 0:
                                break
                            depth -= 1
                        elif ch == ',' and depth == 0:
                            break
                    e_ += 1
                if not any(ea <= j < eb or ea < e_ <= eb for (ea, eb, _t) in edits if eb > ea and (ea, eb) != (a, b)):
                    edits.append((j, j, '{ '))
                    edits.append((e_, e_, ' }'))
    for text, lines, mode in d.after:
        s, e = find_anchor(body, text, '%s-anchor in %s' % (mode, d.spec))
        pos = e if mode == 'after' else s
        edits.append((pos, pos, '\n' + '\n'.join(lines) + '\n'))
    # a closure that the contract does not annotate (and that no rewrite replaces) is an unspecified dependency: Verus would accept it and
    # know nothing about its result, so a harmless `.map(|d| d.clone())` would fail a postcondition.  Undecided (stub), never an alarm.
    bare = [(a, b) for k_, (a, b) in enumerate(closures)
            if (k_ + 1) not in d.closures_opaque and not any(ea <= a and b <= eb and eb > ea for (ea, eb, _t) in edits)]
    if bare:
        raise Undecided('the body of %s contains %d closure(s) that the contract does not annotate: an unannotated closure has no specification'
                        % (d.spec, len(bare)))
    edits.sort(key=lambda t: (t[0], t[1]))
    for i in range(len(edits) - 1):
        if edits[i][1] > edits[i + 1][0]:
            raise Undecided('overlapping injection anchors in %s' % d.spec)
    for a, b, t in reversed(edits):
        body = body[:a] + t + body[b:]
    pre = d.opts.get('pre', '').replace('~', ' ')
    text = (pre + ' ' if pre else '') + header + '\n' + '\n'.join(d.spec_lines) + ('\n' if d.spec_lines else '') + body + '\n'
    if 'R9' in d.opts.get('rules', ''):
        for ph, val in R9_DIRECTIONS.items():
            text = text.replace(ph, val)
        if '$REV9_' in text:
            raise Undecided('lost anchor: an R9 scan named by the contract of %s is no longer there' % d.spec)
    nlines = text.count('\n')
    first_line = src.count('\n', 0, it.sig_start) + 1
    body_off = len(text) - len(body) - 1
    fnmap.append({'label': label, 'fn': name, 'source': file, 'source_line': first_line,
                  'gen_first': out_lineno, 'gen_last': out_lineno + nlines - 1,
                  'body_first': out_lineno + text.count('\n', 0, body_off),
                  'spec': d.spec, 'new_calls': new_calls, 'shape': shape,
                  'obls': sorted(set(re.findall(r'//\s*OBL\s+(\S+)', '\n'.join(d.raw))))})
    log.taken.append({'item': d.spec, 'kind': 'fn', 'source_line': first_line, 'bytes': it.end - it.sig_start})
    return text


def loop_shape(body):
    """The loop / exit structure of a function body as written: for every loop in textual order its keyword and the number of `break`, `continue`
    and `return` inside it.  Loop contracts (invariants, `ensures`) are written for one control-flow shape; when the shape changes a failed
    proof inside the function is no verdict (runner: undecided)."""
    kind = rs.code_mask(body)
    out = []
    for kw, ks, bo in rs.find_loops(body, kind, 1, len(body) - 1):
        bc = rs.match_close(body, kind, bo)
        seg, sk = body[bo:bc], kind[bo:bc]
        cnt = lambda w: len([1 for _ in rs.find_code(seg, sk, r'\b' + w + r'\b', 0, len(seg))])
        out.append([kw, cnt('break'), cnt('continue'), cnt('return')])
    return out


_SHAPES = {}


def pinned_shapes(template_path):
    p = os.path.splitext(template_path)[0] + '.shapes'
    if p not in _SHAPES:
        try:
            _SHAPES[p] = json.load(open(p))
        except Exception:
            _SHAPES[p] = {}
    return _SHAPES[p]


def apply_fn(d, log, fnmap, out_lineno):
    """Extract a function under its contract; when only its BODY can no longer be produced mechanically, emit it as an
    `external_body` stub under the same contract (recorded as isolated: its obligations are undecided, the others stay decidable)."""
    n0 = len(fnmap)
    try:
        return _apply_fn_full(d, log, fnmap, out_lineno)
    except Undecided as e:
        del fnmap[n0:]
        try:
            return _apply_fn_full(d, log, fnmap, out_lineno, stub_only=str(e))
        except Undecided:
            raise e


def _params_open(header, hk):
    i = header.index('fn ')
    depth = 0
    j = i
    while j < len(header):
        if hk[j] == 'c':
            c = header[j]
            if c == '<':
                depth += 1
            elif c == '>' and header[j - 1] != '-':
                depth -= 1
            elif c == '(' and depth == 0:
                return j
            elif c == '(':
                j = rs.match_close(header, hk, j)
        j += 1
    raise Undecided('no parameter list in %s' % header)


def apply_item(spec, opts, log):
    file, src, kind, it = get_item(spec)
    keep = [x for x in opts.get('derive', '').split(',') if x]
    attrs = rule_r0_attrs(it.attrs(), keep, log, spec)
    text = strip_comments(it.text())
    # drop field / variant attributes (#[token..], #[regex..], #[serde..], #[error..], #[from] ...)
    tk = rs.code_mask(text)
    edits = []
    i = 0
    while i < len(text):
        if tk[i] == 'c' and text[i] == '#' and text[i + 1:i + 2] == '[':
            close = rs.match_close(text, tk, i + 1)
            edits.append((i, close + 1))
            i = close + 1
        else:
            i += 1
    for a, b in reversed(edits):
        text = text[:a] + text[b:]
    log.hit('R0.attr_dropped', len(edits), spec)
    new = re.sub(r'\bpub\s*\([^)]*\)', 'pub', text)
    if new != text:
        log.hit('R0.visibility', 1, spec)
    text = new
    if opts.get('vis') == 'pub' and not text.lstrip().startswith('pub'):
        text = 'pub ' + text
    if opts.get('fields') == 'pub':
        # make every named field pub (single file: visibility is irrelevant, but spec fns need it)
        text = re.sub(r'(?m)^(\s+)(?!pub\b)(\w+\s*:)', r'\1pub \2', text)
        mt = re.match(r'(\s*(?:pub\s+)?struct\s+\w+\s*(?:<[^>]*>)?\s*)\((.*)\)\s*;\s*$', text, re.S)
        if mt:
            parts, depth, cur = [], 0, ''
            for ch in mt.group(2):
                if ch in '<([':
                    depth += 1
                elif ch in '>)]':
                    depth -= 1
                if ch == ',' and depth == 0:
                    parts.append(cur)
                    cur = ''
                else:
                    cur += ch
            if cur.strip():
                parts.append(cur)
            parts = [x.strip() if x.strip().startswith('pub') else 'pub ' + x.strip() for x in parts]
            text = mt.group(1) + '(' + ', '.join(parts) + ');'
    if 'pre' in opts:
        attrs = attrs + opts['pre'].replace('~', ' ') + '\n'
    first_line = src.count('\n', 0, it.sig_start) + 1
    log.taken.append({'item': spec, 'kind': it.kw, 'source_line': first_line, 'bytes': it.end - it.sig_start})
    return attrs + text + '\n'


def registry_src(crate):
    """Locate a vendored crate (version from /repo/Cargo.lock)."""
    lock = open(os.path.join(REPO, 'Cargo.lock')).read()
    m = re.search(r'name = "%s"\nversion = "([^"]+)"' % re.escape(crate), lock)
    if not m:
        raise Undecided('crate %s not in Cargo.lock' % crate)
    ver = m.group(1)
    base = os.path.expanduser('~/.cargo/registry/src')
    for d in sorted(os.listdir(base)):
        p = os.path.join(base, d, '%s-%s' % (crate, ver))
        if os.path.isdir(p):
            return p, ver
    raise Undecided('vendored source of %s-%s not found' % (crate, ver))


import threading  # noqa: E402
_TL = threading.local()  # per-expansion state: units are expanded concurrently by the runner


def _opaque_declared():
    if not hasattr(_TL, 'opaque'):
        _TL.opaque = set()
    return _TL.opaque


def _mirror_opts():
    if not hasattr(_TL, 'opts'):
        _TL.opts = {}
    return _TL.opts


def _opaque_name(ty):
    return 'T_' + re.sub(r'[^A-Za-z0-9]+', '_', ty).strip('_')


def _mirror_type(ty, known):
    ty = rs.norm_ws(ty)
    m = re.fullmatch(r'(Option|Vec|Box)\s*<(.*)>', ty)
    if m:
        inner, decls = _mirror_type(m.group(2), known)
        return '%s<%s>' % (m.group(1), inner), decls
    m2 = re.fullmatch(r'IndexMap\s*<\s*([^,]+?)\s*,\s*(.*)>', ty)
    if m2 and 'IndexMap' in known:
        # keep the map shape (key / value types mirrored) when the template provides an IndexMap shim
        k_, d1 = _mirror_type(m2.group(1), known)
        v_, d2 = _mirror_type(m2.group(2), known)
        return 'IndexMap<%s, %s>' % (k_, v_), d1 + d2
    if ty in known:
        return known[ty], []
    m3 = re.fullmatch(r'(\w+)\s*<\s*([^,<>]+?)\s*>', ty)
    if m3 and m3.group(1) in known and m3.group(1) not in ('IndexMap',):
        # a known one-parameter generic (e.g. ReferenceOr<T>) keeps its shape, the argument is mirrored
        a_, d1 = _mirror_type(m3.group(2), known)
        return '%s<%s>' % (known[m3.group(1)], a_), d1
    if ty in ('String', 'bool', 'u8', 'u16', 'u32', 'u64', 'usize', 'i32', 'i64'):
        return ty, []
    name = _opaque_name(ty)
    decls = []
    if name not in _opaque_declared():
        _opaque_declared().add(name)
        decls.append('#[verifier::external_body] pub struct %s; // opaque payload: %s' % (name, ty))
        if _mirror_opts().get('defaults'):
            decls.append('pub uninterp spec fn default_%s() -> %s;' % (name, name))
            decls.append('impl Default for %s { #[verifier::external_body] fn default() -> (r: Self) ensures r == default_%s() { unimplemented!() } }' % (name, name))
    return name, decls


def field_mirror(args, log):
    """//@ fieldmirror <crate> <relfile> <Struct> [known=<A,B>] [as=<Name>]
       Generates `pub struct <Struct> { pub f: <T>, .. }` with the field names and the outer type
       shape (Option/Vec/Box) of the real struct, read from the vendored crate source; every other
       payload type becomes an opaque external_body struct unless listed in `known` (types that
       the template itself defines or mirrors)."""
    rest, opts = parse_opts(args)
    crate, relfile, struct = rest.split()[:3]
    _mirror_opts()['defaults'] = opts.get('defaults') == 'yes'
    root, ver = registry_src(crate)
    src = open(os.path.join(root, relfile), encoding='utf-8').read()
    kind = rs.code_mask(src)
    try:
        it = rs.find_item(src, kind, [('struct', struct)])
    except rs.ScanError as e:
        raise Undecided('lost anchor: %s::%s (%s)' % (crate, struct, e))
    body = strip_comments(it.body())
    bk = rs.code_mask(body)
    out = []
    i = 0
    while i < len(body):
        if bk[i] == 'c' and body[i] == '#' and body[i + 1:i + 2] == '[':
            i = rs.match_close(body, bk, i + 1) + 1
        else:
            out.append(body[i])
            i += 1
    body = ''.join(out)[1:-1]
    known = {k: k for k in opts.get('known', '').split(',') if k}
    concrete = set(x for x in opts.get('concrete', '').split(',') if x)
    # split on top-level commas
    fields = []
    depth = 0
    cur = ''
    for ch in body:
        if ch in '<([':
            depth += 1
        elif ch in '>)]':
            depth -= 1
        if ch == ',' and depth == 0:
            fields.append(cur)
            cur = ''
        else:
            cur += ch
    if cur.strip():
        fields.append(cur)
    name = opts.get('as', struct)
    lines = []
    names = []
    decls = []
    for f in fields:
        m = re.match(r'\s*(pub(\s*\([^)]*\))?\s+)?(\w+)\s*:\s*(.*)$', f.strip(), re.S)
        if not m:
            continue
        if m.group(3) in concrete:
            ty, d = rs.norm_ws(m.group(4)), []
        else:
            ty, d = _mirror_type(m.group(4), known)
        decls.extend(d)
        names.append(m.group(3))
        lines.append('    pub %s: %s,' % (m.group(3), ty))
    derive = []
    md = re.search(r'#\[derive\(([^)]*)\)\]', it.attrs())
    if md and re.search(r'\bCopy\b', md.group(1)):
        derive = ['#[derive(Clone, Copy)]']   # keep Copy: by-value reuse of fields must type-check as in the real code
    text = '\n'.join(decls + derive + ['pub struct %s {' % name] + lines + ['}']) + '\n'
    log.taken.append({'item': '%s-%s/%s::%s' % (crate, ver, relfile, struct), 'kind': 'fieldmirror', 'fields': names, 'copy': bool(derive)})
    return text, names


def _camel(f):
    return ''.join(p.capitalize() for p in f.split('_'))


def expand(template_path, out_path, extra_tail=''):
    _TL.opaque = set()
    _TL.opts = {}
    log = Log()
    fnmap = []
    out = []
    lines = _prepass(_read_with_includes(template_path), log)
    i = 0

    def cur_line():
        return sum(s.count('\n') for s in out) + 1

    mirrors = {}
    while i < len(lines):
        ln = lines[i]
        st = ln.strip()
        if not st.startswith('//@'):
            out.append(ln + '\n')
            i += 1
            continue
        cmd = st[3:].strip()
        if cmd.startswith('fn '):
            spec, opts = parse_opts(cmd[3:])
            d = FnDirective(spec, opts)
            i += 1
            cur = None
            while i < len(lines):
                s2 = lines[i].strip()
                if s2.startswith('//@'):
                    c2 = s2[3:].strip()
                    if c2 == 'end':
                        i += 1
                        break
                    if c2.startswith('ret '):
                        d.ret = c2[4:].strip()
                        cur = None
                    elif c2.startswith('sig '):
                        old, new = c2[4:].split('=>')
                        d.sigsubs.append((old.strip(), new.strip()))
                        cur = None
                    elif c2.startswith('closure-opaque '):
                        d.closures_opaque.update(int(x) for x in c2[len('closure-opaque '):].split())
                        cur = None
                    elif c2.startswith('ghost-param '):
                        d.ghost_params.append(c2[len('ghost-param '):].strip())
                        cur = None
                    elif c2 == 'spec':
                        cur = d.spec_lines
                    elif c2.startswith('norule '):
                        d.norules.add(c2[7:].strip())
                        cur = None
                    elif c2.startswith('loop '):
                        m = re.match(r'loop\s+(\d+)(\s+iter\s+(\w+))?', c2)
                        cur = []
                        d.loops[int(m.group(1))] = (m.group(3), cur)
                    elif c2.startswith('calls'):
                        d.calls = c2[5:].split()
                        cur = None
                    elif c2.startswith('locals'):
                        d.locals = c2[6:].split()
                        cur = None
                    elif c2.startswith('params '):
                        d.params = c2[7:].split()
                        cur = None
                    elif c2 == 'fn-begin':
                        cur = d.fn_begin
                    elif c2.startswith('before-loop '):
                        cur = []
                        d.before_loop[int(c2.split()[1])] = cur
                    elif c2.startswith('loop-end '):
                        cur = []
                        d.loop_end[int(c2.split()[1])] = cur
                    elif c2.startswith('loop-begin '):
                        cur = []
                        d.loop_begin[int(c2.split()[1])] = cur
                    elif c2.startswith('after-loop '):
                        cur = []
                        d.after_loop[int(c2.split()[1])] = cur
                    elif c2.startswith('closure '):
                        m = re.match(r'closure\s+(\d+)\s+(.*)$', c2)
                        cur = []
                        d.closures[int(m.group(1))] = (m.group(2), cur)
                    elif c2.startswith('after ') or c2.startswith('before '):
                        mode, rest = c2.split(' ', 1)
                        m = re.match(r'"(.*)"\s*$', rest.strip())
                        cur = []
                        d.after.append((m.group(1), cur, mode))
                    elif c2.startswith('subst '):
                        m = re.match(r'subst\s+"(.*)"\s*=>\s*"(.*)"(\s+count=(\d+|\*))?\s*$', c2)
                        d.substs.append((m.group(1), m.group(2), -1 if m.group(4) == '*' else int(m.group(4) or 1)))
                        cur = None
                    elif c2.startswith('subst-re '):
                        m = re.match(r'subst-re\s+"(.*)"\s*=>\s*"(.*)"(\s+count=(\d+|\*))?\s*$', c2)
                        d.substs.append((('re', m.group(1)), m.group(2), -1 if m.group(4) == '*' else int(m.group(4) or 1)))
                        cur = None
                    else:
                        raise SystemExit('bad directive in fn block: ' + s2)
                else:
                    if cur is None:
                        if s2:
                            raise SystemExit('text outside a section in fn block: ' + s2)
                    else:
                        cur.append(lines[i])
                        d.raw.append(lines[i])
                i += 1
            out.append(apply_fn(d, log, fnmap, cur_line()))
            continue
        if cmd.startswith('item '):
            spec, opts = parse_opts(cmd[5:])
            out.append(apply_item(spec, opts, log))
            i += 1
            continue
        if cmd.startswith('logos-shape '):
            import logos_shape
            file, src, kind, it = get_item(cmd[len('logos-shape '):].strip())
            try:
                text, summ = logos_shape.gen_shape(it.attrs(), it.text(), it.name)
            except logos_shape.Unsupported as e:
                raise Undecided('lexer pattern outside the analysed regex subset: %s' % e)
            log.taken.append({'item': cmd[len('logos-shape '):].strip(), 'kind': 'logos-shape', 'patterns': summ})
            out.append(text)
            i += 1
            continue
        if cmd.startswith('trait '):
            spec = cmd[6:].strip()
            file, src, kind, it = get_item(spec)
            i += 1
            members = []
            methods = {}
            cur = None
            curm = None
            while i < len(lines):
                s2 = lines[i].strip()
                if s2.startswith('//@'):
                    c2 = s2[3:].strip()
                    if c2 == 'end':
                        i += 1
                        break
                    if c2 == 'members':
                        cur = members
                    elif c2.startswith('method '):
                        curm = {'ret': None, 'spec': [], 'sig': []}
                        methods[c2[7:].strip()] = curm
                        cur = None
                    elif c2.startswith('ret '):
                        curm['ret'] = c2[4:].strip()
                    elif c2.startswith('sig '):
                        old, new = c2[4:].split('=>')
                        curm['sig'].append((old.strip(), new.strip()))
                    elif c2 == 'spec':
                        cur = curm['spec']
                    else:
                        raise SystemExit('bad directive in trait block: ' + s2)
                else:
                    if cur is not None:
                        cur.append(lines[i])
                i += 1
            out.append(apply_trait(spec, src, kind, it, members, methods, log))
            continue
        if cmd.startswith('note ') or cmd.startswith('unit ') or cmd.startswith('#'):
            i += 1
            continue
        raise SystemExit('unknown directive: ' + st)
    text = ''.join(out)
    if extra_tail:
        text = text.replace('} // verus!', extra_tail + '\n} // verus!')
    os.makedirs(os.path.dirname(out_path), exist_ok=True)
    with open(out_path, 'w') as f:
        f.write(text)
    # loop / exit structure of each taken function against the structure its loop contracts were written for (contracts/<unit>.shapes)
    pins = pinned_shapes(template_path)
    key = lambda f: f['spec'] + ' @ ' + f['label']
    if os.environ.get('VERIF_WRITE_SHAPES') == os.path.splitext(os.path.basename(template_path))[0]:
        json.dump({key(f): f['shape'] for f in fnmap if 'shape' in f and f['shape']}, open(os.path.splitext(template_path)[0] + '.shapes', 'w'), indent=0, sort_keys=True)
        _SHAPES.pop(os.path.splitext(template_path)[0] + '.shapes', None)
    else:
        for f in fnmap:
            if 'shape' in f and key(f) in pins and pins[key(f)] != f['shape']:
                f['shape_changed'] = {'pinned': pins[key(f)], 'now': f['shape']}
            elif 'shape' in f and f['shape'] and key(f) not in pins and pins:
                f['shape_changed'] = {'pinned': None, 'now': f['shape']}

    return text, fnmap, log


def apply_trait(spec, src, kind, it, members, methods, log):
    header = strip_comments(it.header).rstrip()
    header = re.sub(r'^pub\s*\([^)]*\)', 'pub', header)
    inner_lo, inner_hi = it.body_open + 1, it.end - 1
    items = rs.scan_items(src, kind, inner_lo, inner_hi)
    out = [header + ' {']
    out.extend(members)
    seen = set()
    for m in items:
        t = strip_comments(m.text()).strip()
        if m.kw == 'fn' and m.name in methods and m.body_open is None:
            md = methods[m.name]
            sig = t[:-1].rstrip()
            for old, new in md['sig']:
                if sig.count(old) != 1:
                    raise Undecided('lost anchor: trait method signature text "%s"' % old)
                sig = sig.replace(old, new)
            if md['ret']:
                hk = rs.code_mask(sig)
                po = _params_open(sig, hk)
                pc = rs.match_close(sig, hk, po)
                mm = re.match(r'(\s*->\s*)(.*)$', sig[pc + 1:], re.S)
                sig = sig[:pc + 1] + mm.group(1) + '(' + md['ret'] + ': ' + mm.group(2).strip() + ')'
            out.append('    ' + sig)
            out.extend(md['spec'])
            out.append('    ;')
            seen.add(m.name)
        else:
            out.append('    ' + t)
    for name in methods:
        if name not in seen:
            raise Undecided('lost anchor: trait method %s in %s' % (name, spec))
    out.append('}')
    log.taken.append({'item': spec, 'kind': 'trait', 'bytes': it.end - it.sig_start})
    return '\n'.join(out) + '\n'


def _prepass(lines, log):
    """Expand `fieldmirror` and `foreach-field` directives (they may sit inside fn blocks)."""
    mirrors = {}
    out = []
    for ln in lines:
        st = ln.strip()
        if st.startswith('//@ fieldmirror '):
            text, fields = field_mirror(st[len('//@ fieldmirror '):], log)
            mirrors[st.split()[4]] = fields
            out.extend(text.rstrip('\n').split('\n'))
        elif st.startswith('//@ foreach-field '):
            head, tmpl = st[len('//@ foreach-field '):].split(' : ', 1)
            rest, opts = parse_opts(head)
            if rest.strip() not in mirrors:
                raise SystemExit('foreach-field before fieldmirror: ' + st)
            exc = set(opts.get('except', '').split(','))
            for f in mirrors[rest.strip()]:
                if f not in exc:
                    out.append('            ' + tmpl.strip().replace('$f', f))
        else:
            out.append(ln)
    return out


def _read_with_includes(path):
    out = []
    base = os.path.dirname(path)
    for ln in open(path, encoding='utf-8').read().split('\n'):
        st = ln.strip()
        if st.startswith('//@ include '):
            out.extend(_read_with_includes(os.path.join(base, st[len('//@ include '):].strip())))
        else:
            out.append(ln)
    return out


def obl_labels(text):
    """line -> [labels] for every `// OBL name` marker."""
    labels = {}
    for n, ln in enumerate(text.split('\n'), 1):
        for m in re.finditer(r'//\s*OBL\s+([\w.\-<>]+)', ln):
            labels.setdefault(n, []).append(m.group(1))
    return labels


TRUST_PATTERNS = [
    ('external_body', r'#\[verifier::external_body\]'),
    ('external_type_specification', r'external_type_specification'),
    ('assume_specification', r'\bassume_specification\b'),
    ('axiom', r'\baxiom\s+fn\b|\bbroadcast\s+axiom\b'),
    ('uninterp', r'\buninterp\s+spec\b'),
    ('assume', r'\bassume\s*\('),
    ('admit', r'\badmit\s*\('),
    ('external', r'#\[verifier::external\]'),
    ('exec_allows_no_decreases_clause', r'exec_allows_no_decreases_clause'),
]


def trusted_scan(text):
    """Mechanical scan for every unproved assumption in the generated file."""
    kind = rs.code_mask(text)
    found = []
    lines = text.split('\n')
    offs = [0]
    for ln in lines:
        offs.append(offs[-1] + len(ln) + 1)
    for name, pat in TRUST_PATTERNS:
        for m in re.finditer(pat, text):
            if kind[m.start()] != 'c':
                continue
            # line number and a short description: the next `fn`/`struct` name after the marker
            ln = text.count('\n', 0, m.start()) + 1
            tail = text[m.start():m.start() + 400]
            mm = re.search(r'\b(fn|struct|enum|type)\s+(\w+)', tail)
            what = mm.group(0) if mm else ''
            if name in ('assume', 'admit'):
                # a statement inside a body: name the enclosing function (the last `fn` before it)
                prev = [x for x in re.finditer(r'\bfn\s+(\w+)', text[:m.start()]) if kind[x.start()] == 'c']
                what = ('in fn ' + prev[-1].group(1)) if prev else what
            if name == 'assume_specification':
                mm = re.search(r'assume_specification\s*(<[^>]*>)?\s*\[\s*(.+?)\s*\]\s*\(', tail, re.S)
                what = rs.norm_ws(mm.group(2)) if mm else what
            found.append({'kind': name, 'what': what, 'line': ln})
    found.sort(key=lambda d: d['line'])
    return found


if __name__ == '__main__':
    tpl, outp = sys.argv[1], sys.argv[2]
    try:
        text, fnmap, log = expand(tpl, outp)
    except Undecided as e:
        print('UNDECIDED: %s' % e)
        sys.exit(2)
    print(json.dumps({'fns': fnmap, 'rules': log.rules, 'taken': log.taken}, indent=1))
