#!/bin/sh
# Offline setup: nothing to build for the Verus path (python3 stdlib + verus on PATH).
# Pre-builds the Kani harness workspace if present so the first quick run is fast.
cd "$(dirname "$0")" || exit 1
mkdir -p gen replay evidence
command -v verus >/dev/null || { echo "verus not on PATH"; exit 1; }
if [ -x tools/kani_prebuild.sh ]; then tools/kani_prebuild.sh || true; fi
exit 0
