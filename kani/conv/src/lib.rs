//! Bounded Kani stand-in for the token value conversions of oal-syntax/src/lexer.rs (C04 / C11):
//! the REAL file is textually included, so its private functions are reachable.
//! Used when the Verus unit `lex` goes stale on changed code, and in the thorough tier.  Bounded: not counted as proof.
#![allow(dead_code, unused_imports)]
#[path = "/repo/oal-syntax/src/atom.rs"]
pub mod atom;
#[path = "/repo/oal-syntax/src/errors.rs"]
pub mod errors;
pub mod lexer {
    include!("/repo/oal-syntax/src/lexer.rs");
    pub fn quoted(s: &str) -> &str { parse_quoted_string(s) }
    pub fn prefixed(s: &str) -> &str { parse_prefixed_string(s) }
    pub fn status(s: &str) -> crate::atom::HttpStatus { parse_http_status(s) }
}

#[cfg(kani)]
mod harness {
    use super::*;
    const N: usize = 4;
    fn any_text(buf: &mut [u8; N]) -> &str {
        for b in buf.iter_mut() { *b = kani::any(); }
        let len: usize = kani::any();
        kani::assume(len <= N);
        let s = std::str::from_utf8(&buf[..len]);
        kani::assume(s.is_ok());
        s.unwrap()
    }
    /// bounded (texts <= 4 bytes): a token matching "[^"]*" or `[^`]*` loses exactly its two delimiters
    #[kani::proof]
    #[kani::unwind(8)]
    fn quoted_string_text() {
        let mut buf = [0u8; N];
        let s = any_text(&mut buf);
        let b = s.as_bytes();
        kani::assume(b.len() >= 2);
        let q = b[0];
        kani::assume((q == b'"' || q == b'`') && b[b.len() - 1] == q);
        let r = lexer::quoted(s);
        assert!(r.len() == s.len() - 2);
        assert!(r.as_bytes() == &b[1..b.len() - 1]);
    }
    /// bounded: a token matching #.., /seg, 'prop loses exactly its one-byte prefix
    #[kani::proof]
    #[kani::unwind(8)]
    fn prefixed_string_text() {
        let mut buf = [0u8; N];
        let s = any_text(&mut buf);
        let b = s.as_bytes();
        kani::assume(b.len() >= 1 && (b[0] == b'#' || b[0] == b'/' || b[0] == b'\''));
        let r = lexer::prefixed(s);
        assert!(r.as_bytes() == &b[1..]);
    }
    /// complete for the pattern [1-5]XX: the range digit is the first character
    #[kani::proof]
    #[kani::unwind(5)]
    fn http_status_literal() {
        let d: u8 = kani::any();
        kani::assume(b'1' <= d && d <= b'5');
        let buf = [d, b'X', b'X'];
        let s = std::str::from_utf8(&buf).unwrap();
        let r = lexer::status(s);
        use atom::{HttpStatus, HttpStatusRange};
        let ok = match r {
            HttpStatus::Range(HttpStatusRange::Info) => d == b'1',
            HttpStatus::Range(HttpStatusRange::Success) => d == b'2',
            HttpStatus::Range(HttpStatusRange::Redirect) => d == b'3',
            HttpStatus::Range(HttpStatusRange::ClientError) => d == b'4',
            HttpStatus::Range(HttpStatusRange::ServerError) => d == b'5',
            _ => false,
        };
        assert!(ok);
    }
}
