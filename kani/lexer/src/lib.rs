//! Bounded Kani stand-in for the lexical layer (C04 / C11): the REAL oal_syntax::lexer::tokenize on all
//! UTF-8 texts up to a small length.  Used when the Verus unit `lex` goes stale, and in the thorough tier.
#![allow(dead_code)]
use oal_model::lexicon::{Interner, Lexeme};
use oal_model::locator::Locator;
use oal_syntax::lexer::{tokenize, TokenKind, TokenValue};

pub fn check(text: &str) -> bool {
    let loc = Locator::try_from("file:///m.oal").unwrap();
    let (list, errors) = tokenize(loc, text);
    let Some(list) = list else { return false };
    // tokens in order, inside the text, on char boundaries, text of symbol tokens = slice (minus delimiters)
    let mut pos = 0usize;
    let mut s = list.head();
    let mut ok = true;
    while s.is_valid() {
        let (tok, span) = list.token_span(s);
        let r = span.range();
        ok &= r.start >= pos && r.start < r.end && r.end <= text.len();
        ok &= text.is_char_boundary(r.start) && text.is_char_boundary(r.end);
        if errors.is_empty() { ok &= r.start == pos; }
        if ok {
            let slice = &text[r.clone()];
            match (tok.kind(), tok.value()) {
                (TokenKind::IdentifierValue | TokenKind::IdentifierReference | TokenKind::Space | TokenKind::CommentLine | TokenKind::CommentBlock, TokenValue::Symbol(sym)) => ok &= list.resolve(*sym) == slice,
                (TokenKind::LiteralString | TokenKind::AnnotationInline, TokenValue::Symbol(sym)) => ok &= slice.len() >= 2 && list.resolve(*sym) == &slice[1..slice.len() - 1],
                (TokenKind::Property | TokenKind::PathElementSegment | TokenKind::AnnotationLine, TokenValue::Symbol(sym)) => ok &= list.resolve(*sym) == &slice[1..],
                _ => {}
            }
        }
        pos = r.end;
        s = list.advance(s);
    }
    if errors.is_empty() { ok &= pos == text.len(); }
    for e in errors.iter() {
        let r = e.span().range();
        ok &= r.start < r.end && r.end <= text.len() && text.is_char_boundary(r.start) && text.is_char_boundary(r.end);
    }
    ok
}

#[cfg(kani)]
mod harness {
    use super::*;
    const N: usize = 3;
    #[kani::proof]
    #[kani::unwind(6)]
    fn tokenize_small_texts() {
        let mut buf = [0u8; N];
        for b in buf.iter_mut() { *b = kani::any(); }
        let len: usize = kani::any();
        kani::assume(len <= N);
        let s = std::str::from_utf8(&buf[..len]);
        kani::assume(s.is_ok());
        assert!(check(s.unwrap()));
    }
}
