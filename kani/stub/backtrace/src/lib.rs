// empty stub: no source file of oal mentions backtrace (checked by grep on every run)
