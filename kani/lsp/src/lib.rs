//! Bounded Kani stand-in for C15 (document store): the REAL text of Workspace::{open,close,change}
//! (src/gen.rs, extracted mechanically from /repo on every run) over shim parameter types with the
//! same field names, the REAL position_to_utf8, compared with an executable client model.
//! Used when the Verus unit c15 goes stale on changed code, and in the thorough tier.  Bounded: never counted as proof.
#![allow(dead_code, unused_imports, unused_variables)]

#[path = "/repo/oal-client/src/lsp/unicode.rs"]
mod unicode;
use unicode::{position_to_utf8, utf8_range_to_position};

pub mod anyhow { pub type Result<T> = core::result::Result<T, ()>; }
#[derive(Clone, PartialEq, Eq)]
pub struct Url(pub u8);
#[derive(Clone, PartialEq, Eq)]
pub struct Locator(pub u8);
impl From<Url> for Locator { fn from(u: Url) -> Self { Locator(u.0) } }
pub struct Span;
/// association-list stand-in for std HashMap (same method names as used by the extracted code)
pub struct HashMap<K, V> { pub v: Vec<(K, V)> }
impl<K: PartialEq, V> Default for HashMap<K, V> { fn default() -> Self { HashMap { v: Vec::new() } } }
impl<K: PartialEq, V> HashMap<K, V> {
    pub fn insert(&mut self, k: K, val: V) -> Option<V> {
        for e in self.v.iter_mut() { if e.0 == k { return Some(std::mem::replace(&mut e.1, val)); } }
        self.v.push((k, val)); None
    }
    pub fn remove(&mut self, k: &K) -> Option<V> {
        let mut i = 0;
        while i < self.v.len() { if self.v[i].0 == *k { return Some(self.v.remove(i).1); } i += 1; }
        None
    }
    pub fn get_mut(&mut self, k: &K) -> Option<&mut V> {
        for e in self.v.iter_mut() { if e.0 == *k { return Some(&mut e.1); } }
        None
    }
    pub fn get(&self, k: &K) -> Option<&V> {
        for e in self.v.iter() { if e.0 == *k { return Some(&e.1); } }
        None
    }
}
// parameter types: same field names as lsp_types (Position / Range are the real ones)
pub struct TextDocumentItem { pub uri: Url, pub language_id: String, pub version: i32, pub text: String }
pub struct TextDocumentIdentifier { pub uri: Url }
pub struct VersionedTextDocumentIdentifier { pub uri: Url, pub version: i32 }
pub struct TextDocumentContentChangeEvent { pub range: Option<lsp_types::Range>, pub range_length: Option<u32>, pub text: String }
pub struct DidOpenTextDocumentParams { pub text_document: TextDocumentItem }
pub struct DidCloseTextDocumentParams { pub text_document: TextDocumentIdentifier }
pub struct DidChangeTextDocumentParams { pub text_document: VersionedTextDocumentIdentifier, pub content_changes: Vec<TextDocumentContentChangeEvent> }

include!("gen.rs");

/// fixed-capacity byte text for the client model (no heap: keeps the CBMC formula small)
#[derive(Clone, Copy)]
pub struct Buf { pub b: [u8; 8], pub n: usize }
impl Buf {
    pub fn from(s: &[u8]) -> Buf { let mut b = [0u8; 8]; let mut i = 0; while i < s.len() { b[i] = s[i]; i += 1; } Buf { b, n: s.len() } }
}
/// LSP meaning of a position in an ASCII text (1 byte = 1 UTF-16 unit): skip `line` line feeds, then advance
/// `character` units but never past the end of the line
pub fn ascii_offset(t: &Buf, line: u32, character: u32) -> usize {
    let mut k = 0usize;
    let mut l = line;
    while l > 0 && k < t.n { if t.b[k] == b'\n' { l -= 1; } k += 1; }
    let mut u = character;
    while u > 0 && k < t.n && t.b[k] != b'\n' && t.b[k] != b'\r' { u -= 1; k += 1; }
    k
}
/// the editor's own edit on its copy
pub fn client_apply(t: &Buf, r: ((u32, u32), (u32, u32)), new: &[u8]) -> Option<Buf> {
    let a = ascii_offset(t, r.0 .0, r.0 .1);
    let b = ascii_offset(t, r.1 .0, r.1 .1);
    if a > b || t.n - (b - a) + new.len() > 8 { return None; }
    let mut out = Buf { b: [0u8; 8], n: t.n - (b - a) + new.len() };
    let mut i = 0;
    while i < out.n {
        out.b[i] = if i < a { t.b[i] } else if i < a + new.len() { new[i - a] } else { t.b[i - new.len() + (b - a)] };
        i += 1;
    }
    Some(out)
}

#[cfg(kani)]
mod harness {
    use super::*;
    fn any_range() -> ((u32, u32), (u32, u32)) {
        let r: ((u32, u32), (u32, u32)) = ((kani::any(), kani::any()), (kani::any(), kani::any()));
        kani::assume(r.0 .0 <= 2 && r.0 .1 <= 3 && r.1 .0 <= 2 && r.1 .1 <= 3);
        kani::assume(r.0 .0 < r.1 .0 || (r.0 .0 == r.1 .0 && r.0 .1 <= r.1 .1));
        r
    }
    fn any_small() -> &'static str {
        let c: u8 = kani::any();
        kani::assume(c <= 2);
        if c == 0 { "" } else if c == 1 { "x" } else { "\n" }
    }
    fn ev(r: ((u32, u32), (u32, u32)), t: &str) -> TextDocumentContentChangeEvent {
        TextDocumentContentChangeEvent {
            range: Some(lsp_types::Range { start: lsp_types::Position { line: r.0 .0, character: r.0 .1 }, end: lsp_types::Position { line: r.1 .0, character: r.1 .1 } }),
            range_length: None, text: t.to_owned(),
        }
    }
    // NOTE: a harness with two *ranged* changes and symbolic positions was tried (texts "ab\ncd", positions <= (2,3)):
    // CBMC exceeded 65 GB in String::replace_range with symbolic offsets and was dropped; ranged edits are covered by the
    // Verus unit c15 only.
    /// bounded: open / full-text change / close / change-after-close keep the store equal to the client's
    #[kani::proof]
    #[kani::unwind(8)]
    fn open_full_change_close() {
        let text = "q";
        let mut ws = Workspace { docs: Default::default(), errors: None };
        let _ = ws.open(DidOpenTextDocumentParams { text_document: TextDocumentItem { uri: Url(1), language_id: String::new(), version: 0, text: text.to_owned() } });
        let _ = ws.open(DidOpenTextDocumentParams { text_document: TextDocumentItem { uri: Url(2), language_id: String::new(), version: 0, text: String::from("k") } });
        let _ = ws.change(DidChangeTextDocumentParams {
            text_document: VersionedTextDocumentIdentifier { uri: Url(1), version: 1 },
            content_changes: vec![TextDocumentContentChangeEvent { range: None, range_length: None, text: String::from("ab") }],
        });
        assert!(ws.docs.get(&Locator(1)).unwrap().as_bytes() == b"ab");
        assert!(ws.docs.get(&Locator(2)).unwrap().as_bytes() == b"k");
        let _ = ws.close(DidCloseTextDocumentParams { text_document: TextDocumentIdentifier { uri: Url(1) } });
        assert!(ws.docs.get(&Locator(1)).is_none());
        assert!(ws.docs.get(&Locator(2)).unwrap().as_bytes() == b"k");
        let _ = ws.change(DidChangeTextDocumentParams {
            text_document: VersionedTextDocumentIdentifier { uri: Url(1), version: 2 },
            content_changes: vec![TextDocumentContentChangeEvent { range: None, range_length: None, text: String::from("zz") }],
        });
        assert!(ws.docs.get(&Locator(1)).is_none());
    }
}
