//! Complete (loop-free, full u64 domain) Kani proof about the REAL oal_syntax::atom::HttpStatus::try_from.
#![allow(dead_code)]
use oal_syntax::atom::HttpStatus;

pub fn try_code(v: u64) -> Option<u16> {
    match HttpStatus::try_from(v) {
        Ok(HttpStatus::Code(c)) => Some(c.get()),
        Ok(HttpStatus::Range(_)) => Some(0),
        Err(_) => None,
    }
}

#[cfg(kani)]
mod harness {
    use super::*;
    /// C04.status.try_from.total + C03.status.code_domain:
    /// for EVERY u64: no panic (incl. the unwrap and the unsafe new_unchecked precondition),
    /// Ok(Code(c)) with c == v exactly when 100 <= v <= 599, Err otherwise; never a Range.
    #[kani::proof]
    fn status_try_from_total_and_domain() {
        let v: u64 = kani::any();
        match HttpStatus::try_from(v) {
            Ok(HttpStatus::Code(c)) => {
                assert!(100 <= v && v <= 599);
                assert!(c.get() as u64 == v);
                assert!(100 <= c.get() && c.get() <= 599);
            }
            Ok(HttpStatus::Range(_)) => assert!(false),
            Err(_) => assert!(v < 100 || v > 599),
        }
    }
}
