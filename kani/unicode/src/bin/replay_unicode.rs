//! Re-executes a counterexample on the REAL unicode.rs (compiled from /repo's working tree).
//! usage: replay_unicode <hex-bytes-of-text> <index> [<line> <character>]
use vk_unicode::*;
fn main() {
    let a: Vec<String> = std::env::args().collect();
    let bytes: Vec<u8> = (0..a[1].len() / 2).map(|i| u8::from_str_radix(&a[1][2 * i..2 * i + 2], 16).unwrap()).collect();
    let text = String::from_utf8(bytes).expect("utf8");
    let idx: usize = a[2].parse().unwrap();
    let (l, c) = u2p(&text, idx);
    let back = p2u(&text, l, c);
    let rp = ref_position(&text, idx);
    println!("text={:?} index={} utf8_to_position=({},{}) reference_position=({},{}) position_to_utf8(back)={} roundtrip_ok={}",
        text, idx, l, c, rp.0, rp.1, back, back == idx);
    if a.len() >= 5 {
        let line: u32 = a[3].parse().unwrap();
        let ch: u32 = a[4].parse().unwrap();
        println!("position=({},{}) position_to_utf8={} reference_client_offset={:?}", line, ch, p2u(&text, line, ch), ref_client_offset(&text, line, ch));
    }
}
