//! Kani harnesses over the REAL oal-client/src/lsp/unicode.rs and oal-model/src/span.rs
//! (#[path]-included, no hook in /repo).  Bounded: used for counterexample replay and as a
//! cross-check of the reference spec; never counted as proof.
#![allow(dead_code, unused_imports)]

#[path = "/repo/oal-client/src/lsp/unicode.rs"]
mod unicode;

use unicode::*;

/// stand-in for oal_model::locator::Locator: span.rs only needs Clone + Debug + Eq + Display
pub mod locator {
    #[derive(Clone, Debug, PartialEq, Eq)]
    pub struct Locator;
    impl std::fmt::Display for Locator {
        fn fmt(&self, f: &mut std::fmt::Formatter<'_>) -> std::fmt::Result { write!(f, "loc") }
    }
}

/// the REAL oal-model/src/span.rs, textually included so that its private fn is reachable
pub mod span {
    include!("/repo/oal-model/src/span.rs");
    pub fn char_index(input: &str, index: usize) -> usize { utf8_to_char_index(input, index) }
}

pub fn p2u(text: &str, line: u32, character: u32) -> usize {
    position_to_utf8(text, lsp_types::Position { line, character })
}
pub fn u2p(text: &str, index: usize) -> (u32, u32) {
    let p = utf8_to_position(text, index);
    (p.line, p.character)
}
pub fn range2p(text: &str, a: usize, b: usize) -> ((u32, u32), (u32, u32)) {
    let r = utf8_range_to_position(text, a..b);
    ((r.start.line, r.start.character), (r.end.line, r.end.character))
}

/// executable reference for the other direction
pub fn ref_position(text: &str, index: usize) -> (u32, u32) {
    let mut off = 0usize;
    let mut line = 0u32;
    let mut col = 0u32;
    for c in text.chars() {
        if off >= index { break; }
        if c == '\n' { line += 1; col = 0; } else { col += c.len_utf16() as u32; }
        off += c.len_utf8();
    }
    (line, col)
}

/// reference implementation of the LSP meaning of a position (same definition as the Verus
/// reference `client_index`, executable)
pub fn ref_client_offset(text: &str, line: u32, character: u32) -> Option<usize> {
    let mut it = text.chars();
    let mut off = 0usize;
    let mut l = line;
    while l > 0 {
        match it.next() {
            None => return Some(off),
            Some(c) => {
                off += c.len_utf8();
                if c == '\n' { l -= 1; }
            }
        }
    }
    let mut units = character as usize;
    while units > 0 {
        match it.next() {
            None => break,
            Some(c) => {
                if c == '\n' || c == '\r' { break; }
                let w = c.len_utf16();
                if w > units { return None; }
                units -= w;
                off += c.len_utf8();
            }
        }
    }
    Some(off)
}

pub fn no_lone_cr(text: &str) -> bool {
    let b = text.as_bytes();
    let mut i = 0;
    while i < b.len() {
        if b[i] == b'\r' && !(i + 1 < b.len() && b[i + 1] == b'\n') { return false; }
        i += 1;
    }
    true
}

pub fn in_crlf(text: &str, i: usize) -> bool {
    let b = text.as_bytes();
    i > 0 && i < b.len() && b[i - 1] == b'\r' && b[i] == b'\n'
}

#[cfg(kani)]
mod harness {
    use super::*;
    const N: usize = 4;

    fn any_text(buf: &mut [u8; N]) -> &str {
        for b in buf.iter_mut() { *b = kani::any(); }
        let len: usize = kani::any();
        kani::assume(len <= N);
        let s = std::str::from_utf8(&buf[..len]);
        kani::assume(s.is_ok());
        s.unwrap()
    }

    /// bounded (texts <= 4 bytes): round trip outside CRLF interiors
    #[kani::proof]
    #[kani::unwind(7)]
    fn roundtrip() {
        let mut buf = [0u8; N];
        let text = any_text(&mut buf);
        let idx: usize = kani::any();
        kani::assume(idx <= text.len() && text.is_char_boundary(idx));
        kani::assume(no_lone_cr(text) && !in_crlf(text, idx));
        let p = utf8_to_position(text, idx);
        assert_eq!(position_to_utf8(text, p), idx);
    }

    /// bounded: utf8_to_position agrees with the executable reference, range = both ends
    #[kani::proof]
    #[kani::unwind(7)]
    fn u2p_matches_reference() {
        let mut buf = [0u8; N];
        let text = any_text(&mut buf);
        let a: usize = kani::any();
        let b: usize = kani::any();
        kani::assume(a <= 6 && b <= 6);
        assert_eq!(u2p(text, a), ref_position(text, a));
        let r = range2p(text, a, b);
        assert_eq!(r.0, ref_position(text, a));
        assert_eq!(r.1, ref_position(text, b));
    }

    /// bounded: utf8_to_char_index == number of chars that start before `index`; CharSpan::from uses it for both ends
    #[kani::proof]
    #[kani::unwind(7)]
    fn char_index_matches_reference() {
        let mut buf = [0u8; N];
        let text = any_text(&mut buf);
        let a: usize = kani::any();
        let b: usize = kani::any();
        let mut n = 0usize;
        let mut off = 0usize;
        for c in text.chars() {
            if off >= a { break; }
            n += 1;
            off += c.len_utf8();
        }
        assert_eq!(span::char_index(text, a), n);
        assert!(span::char_index(text, a) <= text.len());
        let cs = span::CharSpan::from(text, span::Span::new(locator::Locator, a..b));
        assert_eq!(cs.start, span::char_index(text, a));
        assert_eq!(cs.end, span::char_index(text, b));
    }

    /// bounded: position_to_utf8 agrees with the executable reference
    #[kani::proof]
    #[kani::unwind(7)]
    fn p2u_matches_reference() {
        let mut buf = [0u8; N];
        let text = any_text(&mut buf);
        let line: u32 = kani::any();
        let character: u32 = kani::any();
        kani::assume(line <= 5 && character <= 9);
        if let Some(r) = ref_client_offset(text, line, character) {
            assert_eq!(position_to_utf8(text, lsp_types::Position { line, character }), r);
        }
    }
}
